#!/bin/bash
# Determinism proof: every engine is run twice in separate processes, once with 1 worker and once
# with 16, and the per-run event-log hashes are diffed (for sim-cli: a second spawn of the real
# binary under a different ASLR / hash seed). usage: ./check selftest-determinism [runs-per-engine]
set -u
N="${1:-512}"
BIN=/verif/target/sim/sim
tmp=$(mktemp -d /dev/shm/verif-selftest.XXXXXX)
trap 'rm -rf "$tmp"' EXIT
rc=0
for eng in c03 c11 "cli C12" "cli C13"; do
  name=$(echo $eng | tr ' ' '-')
  n=$N; case "$eng" in cli*) n=$(( N / 8 > 16 ? N / 8 : 16 ));; esac
  for w in 1 16; do
    VERIF_HASH_DUMP="$tmp/$name.$w" VERIF_RUNS=$n VERIF_WORKERS=$w $BIN/$eng quick > "$tmp/$name.$w.out" 2>&1
    code=$?
    if [ $code -ne 0 ]; then echo "selftest: $eng (workers=$w) exited $code"; tail -5 "$tmp/$name.$w.out"; rc=2; fi
  done
  if cmp -s "$tmp/$name.1" "$tmp/$name.16"; then
    echo "determinism: $eng: $(wc -l < "$tmp/$name.1") run hashes identical across two processes and worker counts 1 / 16"
  else
    echo "determinism: $eng: MISMATCH"; diff "$tmp/$name.1" "$tmp/$name.16" | head -10; rc=2
  fi
done
# evidence files were rewritten by these reduced runs: refresh them with the registered quick tier afterwards
exit $rc

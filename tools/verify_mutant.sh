#!/bin/bash
# Confirms a sub-agent's seeded change in ITS scratch worktree: builds, runs the unedited suite with the
# change, runs the demo with the change (must fail) and without it (must pass). Prints one summary line.
# usage: tools/verify_mutant.sh /tmp/wt-<id>
wt="$1"; id=$(basename "$wt" | sed 's/^wt-//')
export CARGO_TARGET_DIR="$wt/target" CARGO_NET_OFFLINE=true
cd "$wt" || exit 2
log="/tmp/verify-$id.log"; : > "$log"
# make sure the change is applied and demo side files (copied tests/examples) are out of the way for the suite
git checkout -q -- . && git apply MUTANT/patch.diff || { echo "$id: patch does not apply"; exit 2; }
git clean -fdq -e MUTANT -e target >> "$log" 2>&1
cargo build --workspace --offline >> "$log" 2>&1 || { echo "$id: BUILD FAILS with change"; exit 1; }
cargo test --workspace --no-fail-fast --offline > "$log.tests" 2>&1; trc=$?
passed=$(grep -E "^test result" "$log.tests" | awk '{s+=$4} END {print s+0}')
failed=$(grep -E "^test result" "$log.tests" | awk '{s+=$6} END {print s+0}')
bash MUTANT/demo.sh > "$log.demo_with" 2>&1; with=$?
git clean -fdq -e MUTANT -e target >> "$log" 2>&1
git checkout -q -- .
cargo build --workspace --offline >> "$log" 2>&1
bash MUTANT/demo.sh > "$log.demo_without" 2>&1; without=$?
git clean -fdq -e MUTANT -e target >> "$log" 2>&1
git checkout -q -- .
echo "$id: suite_with_change exit=$trc passed=$passed failed=$failed | demo_with_change exit=$with | demo_without_change exit=$without"

#!/usr/bin/env python3
"""Writes a sub-agent prompt for a seeded change.  usage: gen_prompt.py <PROP> <letter-id> "<steer text>"  -> /verif/notes/agent-prompts/<prop>-<id>.txt
The prompt contains only the property's text (from properties.jsonl), the template, the steer and the list of ideas already used."""
import json, sys, pathlib
prop, lid, steer = sys.argv[1], sys.argv[2], sys.argv[3]
props = {json.loads(l)['id']: json.loads(l) for l in open('/verif/properties.jsonl')}
p = props[prop]
hints = {
 'C03': "a particular placement of a collection between evaluator steps (a specific evaluator state or builtin in flight), a particular heap shape (cycle, multi-edge, object referenced only from an evaluator stack slot), or a multi-step alloc/link/unlink/drop/collect sequence",
 'C11': "a multi-step sequence of requests on ONE long-lived Program (or rsjsonnet_front::Session): e.g. an earlier request that fails or is cut off part-way (explicit error, assertion, stack overflow at some depth, failing import), or a specific earlier success, followed by a later request that then answers differently from what it answers on a fresh state",
 'C12': "a particular combination of mode flags and value shape, an I/O fault at a particular point (a specific read/write/open failing, short or interrupted write, full disk, closed pipe), or a particular ext-var / TLA configuration",
 'C13': "a particular directory layout (duplicates across importer dir / -J dirs / subdirectories, symlinks, ./ ../ spellings, cycles, binary content), -J order, main-program spelling, or an I/O fault on a particular lookup",
}
wt = f"/tmp/wt-{prop.lower()}-{lid}"
text = open('/verif/tools/agent-prompt-template.txt').read()
ptext = f"[{prop}] {p['title']}\n{p['statement']}\nQuantified over: {p['quantifier']['text']}"
used = [l.strip() for l in open(f'/verif/tools/used-ideas/{prop}.txt') if l.strip()]
variant = f"Steer: {steer} Earlier rounds already used these ideas, so do NOT reuse them: " + "; ".join(used) + "."
text = (text.replace('WORKTREE', wt).replace('PROPERTY_TEXT', ptext).replace('HINT', hints[prop])
        .replace('VARIANT', variant).replace('PROP_ID', prop).replace('ANCHORS', ", ".join(p['anchors']['files'])))
text = text.replace("demo.sh is its single entry point", "demo.sh (a BASH script, run as `bash demo.sh`) is its single entry point")
out = pathlib.Path(f'/verif/notes/agent-prompts/{prop.lower()}-{lid}.txt')
out.write_text(text)
print(out)

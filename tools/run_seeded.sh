#!/bin/bash
# Applies a seeded change (/verif/seeded/<id>/patch.diff) to /repo, runs the given checks, and undoes it.
# usage: tools/run_seeded.sh <id> [<prop> <tier>]...     (default: the property in meta.json, quick)
set -u
id="$1"; shift
dir="/verif/seeded/$id"
[ -f "$dir/patch.diff" ] || { echo "no $dir/patch.diff" >&2; exit 2; }
if [ -n "$(git -C /repo status --porcelain)" ]; then echo "/repo is not clean" >&2; exit 2; fi
prop=$(python3 -c "import json,sys; print(json.load(open('$dir/meta.json'))['property'])")
if [ $# -eq 0 ]; then set -- "$prop" quick; fi
git -C /repo apply "$dir/patch.diff" || { echo "patch does not apply" >&2; exit 2; }
rc_all=0
while [ $# -ge 2 ]; do
  p="$1"; t="$2"; shift 2
  out="/tmp/seeded-$id-$p-$t.log"
  ( cd /verif && ./check "$p" "$t" ) > "$out" 2>&1
  rc=$?
  echo "== $id: ./check $p $t -> exit $rc"
  grep -E "^VIOLATION|^KNOWN-FINDING|HARNESS ERROR|^  invariant=" "$out" | cut -c1-300 | head -12
  [ $rc -ne 0 ] && rc_all=$rc
done
git -C /repo apply -R "$dir/patch.diff"
git -C /repo checkout -- . 2>/dev/null
if [ -n "$(git -C /repo status --porcelain)" ]; then echo "WARNING: /repo not clean after revert" >&2; git -C /repo status --short >&2; fi
# rebuild the binaries from the restored tree (a later direct invocation must not see the seeded change)
( cd /verif && ./check setup ) >/dev/null 2>&1
exit $rc_all

#!/bin/bash
# Re-runs the quick check of each seeded change's property against it (apply, check, revert), one after the other;
# the binaries are rebuilt from the restored tree once at the end. usage: tools/run_seeded_batch.sh <id>...
set -u
if [ -n "$(git -C /repo status --porcelain)" ]; then echo "/repo is not clean" >&2; exit 2; fi
for id in "$@"; do
  dir="/verif/seeded/$id"
  prop=$(python3 -c "import json; print(json.load(open('$dir/meta.json'))['property'])")
  git -C /repo apply "$dir/patch.diff" || { echo "== $id: patch does not apply"; continue; }
  out="/tmp/seeded-$id-$prop-quick.log"
  ( cd /verif && ./check "$prop" quick ) > "$out" 2>&1
  rc=$?
  echo "== $id: ./check $prop quick -> exit $rc  $(grep -c '^VIOLATION' "$out") violation lines; first: $(grep -m1 '^  invariant=' "$out" | cut -c1-150)"
  git -C /repo apply -R "$dir/patch.diff"
  git -C /repo checkout -- . 2>/dev/null
  if [ -n "$(git -C /repo status --porcelain)" ]; then echo "WARNING: /repo not clean after $id" >&2; git -C /repo status --short >&2; git -C /repo stash -u -q; fi
done
( cd /verif && ./check setup ) >/dev/null 2>&1

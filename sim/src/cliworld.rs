//! `sim-cli` infrastructure: materialise a world (directory tree, argv, env,
//! stdin) under a scratch root, run the real `rsjsonnet` binary under the
//! LD_PRELOAD fault shim, and collect everything observable.

use std::collections::BTreeMap;
use std::io::Read as _;
use std::path::{Path, PathBuf};
use std::process::{Command, Stdio};
use std::sync::atomic::{AtomicU64, Ordering};
use std::sync::Mutex;

use crate::json::Json;
use crate::util::{b64_decode, b64_encode};

pub const CLI_BIN: &str = "/verif/target/cli/debug/rsjsonnet";
pub const SHIM_SO: &str = "/verif/target/shim/faultio.so";

/// The binary under test (VERIF_CLI_BIN overrides it: used to run long batches against a private build while
/// /repo is being edited).
pub fn cli_bin() -> String {
    std::env::var("VERIF_CLI_BIN").unwrap_or_else(|_| CLI_BIN.to_string())
}

#[derive(Clone, Debug, PartialEq)]
pub enum Entry {
    Dir,
    File(Vec<u8>),
    Symlink(String),
}

#[derive(Clone, Debug, PartialEq)]
pub enum StdoutKind {
    File,
    DevFull,
    PipeClosed,
}

#[derive(Clone, Debug)]
pub struct World {
    pub tree: Vec<(String, Entry)>,
    pub argv: Vec<String>,
    pub env: Vec<(String, String)>,
    pub stdin: Option<Vec<u8>>,
    pub stdout: StdoutKind,
}

#[derive(Clone, Debug, PartialEq)]
pub struct Rule {
    pub op: String,
    pub target: String,
    pub when: String,
    pub act: String,
}

impl Rule {
    pub fn new(op: &str, target: &str, when: &str, act: &str) -> Rule {
        Rule { op: op.into(), target: target.into(), when: when.into(), act: act.into() }
    }
    pub fn line(&self) -> String {
        format!("{} {} {} {}\n", self.op, self.target, self.when, self.act)
    }
    pub fn to_json(&self) -> Json {
        Json::obj(vec![("op", Json::str(&self.op)), ("target", Json::str(&self.target)), ("when", Json::str(&self.when)), ("act", Json::str(&self.act))])
    }
    pub fn from_json(j: &Json) -> Option<Rule> {
        Some(Rule::new(j.get("op")?.as_str()?, j.get("target")?.as_str()?, j.get("when")?.as_str()?, j.get("act")?.as_str()?))
    }
}

impl World {
    pub fn to_json(&self, plan: &[Rule]) -> Vec<(String, Json)> {
        let tree = Json::Arr(
            self.tree
                .iter()
                .map(|(p, e)| match e {
                    Entry::Dir => Json::obj(vec![("p", Json::str(p)), ("t", Json::str("dir"))]),
                    Entry::File(b) => match std::str::from_utf8(b) {
                        Ok(s) => Json::obj(vec![("p", Json::str(p)), ("t", Json::str("file")), ("text", Json::str(s))]),
                        Err(_) => Json::obj(vec![("p", Json::str(p)), ("t", Json::str("file")), ("b64", Json::str(b64_encode(b)))]),
                    },
                    Entry::Symlink(to) => Json::obj(vec![("p", Json::str(p)), ("t", Json::str("symlink")), ("to", Json::str(to))]),
                })
                .collect(),
        );
        vec![
            ("tree".into(), tree),
            ("cwd".into(), Json::str(".")),
            ("argv".into(), Json::Arr(self.argv.iter().map(Json::str).collect())),
            ("env".into(), Json::Obj(self.env.iter().map(|(k, v)| (k.clone(), Json::str(v))).collect())),
            ("stdin_b64".into(), self.stdin.as_ref().map(|s| Json::str(b64_encode(s))).unwrap_or(Json::Null)),
            ("stdout".into(), Json::str(match self.stdout { StdoutKind::File => "file", StdoutKind::DevFull => "devfull", StdoutKind::PipeClosed => "pipe-closed" })),
            ("plan".into(), Json::Arr(plan.iter().map(Rule::to_json).collect())),
        ]
    }

    pub fn from_json(j: &Json) -> Option<(World, Vec<Rule>)> {
        let mut tree = Vec::new();
        for e in j.get("tree")?.as_arr()? {
            let p = e.get("p")?.as_str()?.to_string();
            let entry = match e.get("t")?.as_str()? {
                "dir" => Entry::Dir,
                "file" => match e.get("text") {
                    Some(t) => Entry::File(t.as_str()?.as_bytes().to_vec()),
                    None => Entry::File(b64_decode(e.get("b64")?.as_str()?)?),
                },
                "symlink" => Entry::Symlink(e.get("to")?.as_str()?.to_string()),
                _ => return None,
            };
            tree.push((p, entry));
        }
        let argv = j.get("argv")?.as_arr()?.iter().filter_map(|a| a.as_str().map(String::from)).collect();
        let env = j.get("env")?.as_obj()?.iter().filter_map(|(k, v)| Some((k.clone(), v.as_str()?.to_string()))).collect();
        let stdin = match j.get("stdin_b64") {
            Some(Json::Str(s)) => Some(b64_decode(s)?),
            _ => None,
        };
        let stdout = match j.get("stdout").and_then(|s| s.as_str()) {
            Some("devfull") => StdoutKind::DevFull,
            Some("pipe-closed") => StdoutKind::PipeClosed,
            _ => StdoutKind::File,
        };
        let plan = j.get("plan").and_then(|p| p.as_arr()).map(|a| a.iter().filter_map(Rule::from_json).collect()).unwrap_or_default();
        Some((World { tree, argv, env, stdin, stdout }, plan))
    }
}

#[derive(Clone, Debug, PartialEq)]
pub struct LogLine {
    pub op: String,
    pub target: String,
    pub given: String,
    pub n: Option<i64>,
    /// Ok(return value) or Err(errno name)
    pub result: Result<i64, String>,
    pub injected: bool,
}

#[derive(Clone, Debug, Default)]
pub struct RunOut {
    pub exit: Option<i32>,
    pub signal: Option<i32>,
    pub timed_out: bool,
    pub stdout: Vec<u8>,
    pub stderr: String,
    /// regular files under the root after the run (relative path -> content)
    pub files: BTreeMap<String, Vec<u8>>,
    pub log: Vec<LogLine>,
    pub shim_loaded: bool,
    pub root: String,
}

impl RunOut {
    pub fn identity(&self) -> String {
        crate::util::sha256_hex(self.identity_text().as_bytes())
    }

    pub fn identity_text(&self) -> String {
        let mut s = format!("exit={:?} sig={:?}\n", self.exit, self.signal);
        s.push_str(&crate::util::sha256_hex(String::from_utf8_lossy(&self.stdout).replace(&self.root, "<ROOT>").as_bytes()));
        s.push('\n');
        s.push_str(&self.stderr);
        for (k, v) in &self.files {
            // file contents may spell the scratch root: normalise it away
            let norm = if !self.root.is_empty() && v.windows(self.root.len()).any(|w| w == self.root.as_bytes()) { String::from_utf8_lossy(v).replace(&self.root, "<ROOT>").into_bytes() } else { v.clone() };
            s.push_str(&format!("{k}:{}\n", crate::util::sha256_hex(&norm)));
        }
        for l in &self.log {
            // fd numbers are normalised away: only op/target/count/result
            s.push_str(&format!("{} {} {:?} {:?} {}\n", l.op, l.target, l.n.filter(|_| l.op != "open"), l.result.as_ref().map(|r| if l.op == "open" { 0 } else { *r }), l.injected));
        }
        s
    }
}

static SCRATCH_COUNTER: AtomicU64 = AtomicU64::new(0);
static SCRATCH_DIRS: Mutex<Vec<PathBuf>> = Mutex::new(Vec::new());

thread_local! {
    static SCRATCH: std::cell::RefCell<Option<PathBuf>> = const { std::cell::RefCell::new(None) };
}

fn scratch_base() -> PathBuf {
    SCRATCH.with(|s| {
        let mut s = s.borrow_mut();
        if s.is_none() {
            let n = SCRATCH_COUNTER.fetch_add(1, Ordering::Relaxed);
            let parent = if Path::new("/dev/shm").is_dir() && std::fs::create_dir_all("/dev/shm/.verif-probe").is_ok() {
                let _ = std::fs::remove_dir("/dev/shm/.verif-probe");
                PathBuf::from("/dev/shm")
            } else {
                std::env::temp_dir()
            };
            // fixed-length name: file contents that spell the root must not change length between processes
            let dir = parent.join(format!("verif-{:07}-{n:03}", std::process::id()));
            let _ = std::fs::remove_dir_all(&dir);
            if let Err(e) = std::fs::create_dir_all(&dir) {
                eprintln!("HARNESS ERROR: cannot create scratch dir {dir:?}: {e}");
                std::process::exit(2);
            }
            SCRATCH_DIRS.lock().unwrap().push(dir.clone());
            *s = Some(dir);
        }
        s.clone().unwrap()
    })
}

pub fn cleanup_scratch() {
    for d in SCRATCH_DIRS.lock().unwrap().drain(..) {
        let _ = std::fs::remove_dir_all(d);
    }
}

/// The root under which the current thread materialises worlds.
pub fn scratch_root() -> PathBuf {
    scratch_base().join("r")
}

fn collect_files(root: &Path, dir: &Path, out: &mut BTreeMap<String, Vec<u8>>) {
    let Ok(rd) = std::fs::read_dir(dir) else { return };
    for e in rd.flatten() {
        let p = e.path();
        let Ok(md) = std::fs::symlink_metadata(&p) else { continue };
        if md.is_dir() {
            collect_files(root, &p, out);
        } else if md.is_file() {
            if let (Ok(rel), Ok(data)) = (p.strip_prefix(root), std::fs::read(&p)) {
                out.insert(rel.to_string_lossy().to_string(), data);
            }
        }
    }
}

pub fn materialise(world: &World) -> PathBuf {
    let base = scratch_base();
    let root = base.join("r");
    let _ = std::fs::remove_dir_all(&root);
    std::fs::create_dir_all(&root).expect("harness: cannot create root");
    for (p, e) in &world.tree {
        let full = root.join(p);
        if let Some(parent) = full.parent() {
            let _ = std::fs::create_dir_all(parent);
        }
        match e {
            Entry::Dir => {
                let _ = std::fs::create_dir_all(&full);
            }
            Entry::File(b) => {
                // files may spell the (per-thread) scratch root as <ROOT>
                let root_s = root.to_string_lossy();
                if b.windows(6).any(|w| w == b"<ROOT>") {
                    let text = String::from_utf8_lossy(b).replace("<ROOT>", &root_s);
                    std::fs::write(&full, text.as_bytes()).expect("harness: cannot write tree file")
                } else {
                    std::fs::write(&full, b).expect("harness: cannot write tree file")
                }
            }
            Entry::Symlink(to) => {
                let _ = std::os::unix::fs::symlink(to, &full);
            }
        }
    }
    root
}

pub fn parse_log(text: &str) -> (bool, Vec<LogLine>) {
    let mut loaded = false;
    let mut out = Vec::new();
    for line in text.lines() {
        if line.starts_with("#shim v1") {
            loaded = true;
            continue;
        }
        // <seq> <op> <target> given=<..> n=<..> -> <res> [inj]
        let Some((head, tail)) = line.rsplit_once(" -> ") else { continue };
        let mut it = head.splitn(3, ' ');
        let (_seq, op, rest) = (it.next(), it.next().unwrap_or(""), it.next().unwrap_or(""));
        let Some(gi) = rest.find(" given=") else { continue };
        let target = rest[..gi].to_string();
        let after = &rest[gi + 7..];
        let Some(ni) = after.rfind(" n=") else { continue };
        let given = after[..ni].to_string();
        let n = after[ni + 3..].parse::<i64>().ok();
        let (res, injected) = match tail.strip_suffix(" inj") {
            Some(r) => (r, true),
            None => (tail, false),
        };
        let result = match res.strip_prefix('E') {
            Some(name) => Err(name.to_string()),
            None => Ok(res.parse::<i64>().unwrap_or(0)),
        };
        out.push(LogLine { op: op.to_string(), target, given, n, result, injected });
    }
    (loaded, out)
}

/// Runs the binary on a world under a fault plan. Everything observable is
/// returned; scratch-root prefixes in stderr are normalised to `<ROOT>`.
pub fn run_world(world: &World, plan: &[Rule]) -> RunOut {
    run_world_opt(world, plan, None)
}

/// With `strace_out`, the binary runs under `strace -f -o <file>` as an independent witness of its system calls.
pub fn run_world_opt(world: &World, plan: &[Rule], strace_out: Option<&Path>) -> RunOut {
    run_world_inner(world, plan, strace_out, true)
}

/// Runs the world's command once more in the tree the previous run of this worker left behind (a re-run of the same
/// command over its own outputs).
pub fn run_world_again(world: &World) -> RunOut {
    run_world_inner(world, &[], None, false)
}

fn run_world_inner(world: &World, plan: &[Rule], strace_out: Option<&Path>, fresh_tree: bool) -> RunOut {
    let base = scratch_base();
    let root = if fresh_tree { materialise(world) } else { base.join("r") };
    let plan_path = base.join("plan");
    let log_path = base.join("log");
    let out_path = base.join("out");
    let err_path = base.join("err");
    let stdin_path = base.join("stdin");
    let _ = std::fs::remove_file(&log_path);
    let plan_text: String = plan.iter().map(Rule::line).collect();
    std::fs::write(&plan_path, plan_text).expect("harness: cannot write plan");
    let root_s = root.to_string_lossy().to_string();
    let mut cmd = match strace_out {
        None => Command::new(cli_bin()),
        Some(p) => {
            let mut c = Command::new("strace");
            c.args(["-f", "-s", "0", "-o"]).arg(p).args(["-e", "trace=open,openat,creat,read,pread64,readv,write,pwrite64,writev,stat,lstat,newfstatat,statx", "--"]).arg(cli_bin());
            c
        }
    };
    cmd.args(world.argv.iter().map(|a| a.replace("<ROOT>", &root_s)));
    cmd.current_dir(&root);
    cmd.env_clear();
    for (k, v) in &world.env {
        cmd.env(k, v.replace("<ROOT>", &root_s));
    }
    cmd.env("LD_PRELOAD", SHIM_SO);
    cmd.env("VERIF_SHIM_ROOT", &root);
    cmd.env("VERIF_SHIM_PLAN", &plan_path);
    cmd.env("VERIF_SHIM_LOG", &log_path);
    match &world.stdin {
        Some(data) => {
            let data = if data.windows(6).any(|w| w == b"<ROOT>") { String::from_utf8_lossy(data).replace("<ROOT>", &root_s).into_bytes() } else { data.clone() };
            std::fs::write(&stdin_path, data).expect("harness: cannot write stdin");
            cmd.stdin(Stdio::from(std::fs::File::open(&stdin_path).expect("harness: stdin")));
        }
        None => {
            cmd.stdin(Stdio::null());
        }
    }
    let mut keep_reader = None;
    match world.stdout {
        StdoutKind::File => {
            cmd.stdout(Stdio::from(std::fs::File::create(&out_path).expect("harness: out")));
        }
        StdoutKind::DevFull => {
            let _ = std::fs::write(&out_path, b"");
            cmd.stdout(Stdio::from(std::fs::OpenOptions::new().write(true).open("/dev/full").expect("harness: /dev/full")));
        }
        StdoutKind::PipeClosed => {
            let _ = std::fs::write(&out_path, b"");
            let (reader, writer) = std::io::pipe().expect("harness: pipe");
            drop(reader);
            cmd.stdout(Stdio::from(writer));
            keep_reader = Some(());
        }
    }
    let _ = keep_reader;
    cmd.stderr(Stdio::from(std::fs::File::create(&err_path).expect("harness: err")));
    let mut child = match cmd.spawn() {
        Ok(c) => c,
        Err(e) => {
            eprintln!("HARNESS ERROR: cannot spawn {CLI_BIN}: {e}");
            std::process::exit(2);
        }
    };
    drop(cmd);
    // wall-clock guard: 20 s
    let start = std::time::Instant::now();
    let mut timed_out = false;
    let status = loop {
        match child.try_wait() {
            Ok(Some(st)) => break st,
            Ok(None) => {
                if start.elapsed().as_secs() >= 20 {
                    let _ = child.kill();
                    timed_out = true;
                    break child.wait().expect("harness: wait");
                }
                let el = start.elapsed().as_micros();
                std::thread::sleep(std::time::Duration::from_micros(if el < 30_000 { 300 } else { 2_000 }));
            }
            Err(e) => {
                eprintln!("HARNESS ERROR: wait failed: {e}");
                std::process::exit(2);
            }
        }
    };
    use std::os::unix::process::ExitStatusExt as _;
    let mut out = RunOut { exit: status.code(), signal: status.signal(), timed_out, ..Default::default() };
    out.stdout = std::fs::read(&out_path).unwrap_or_default();
    out.root = root_s.clone();
    let mut err = Vec::new();
    if let Ok(mut f) = std::fs::File::open(&err_path) {
        let _ = f.read_to_end(&mut err);
    }
    out.stderr = String::from_utf8_lossy(&err).replace(&root_s, "<ROOT>");
    let log_text = std::fs::read_to_string(&log_path).unwrap_or_default();
    let (loaded, log) = parse_log(&log_text);
    out.shim_loaded = loaded;
    out.log = log;
    collect_files(&root, &root, &mut out.files);
    if !out.shim_loaded {
        eprintln!("HARNESS ERROR: shim sentinel missing from log (LD_PRELOAD not effective); exit {:?} signal {:?} timed_out {}; argv {:?}; env {:?}; stderr: {}", out.exit, out.signal, out.timed_out, world.argv, world.env, out.stderr);
        std::process::exit(2);
    }
    out
}

//! Shared plumbing: hashing, worker pool, ddmin, known findings, evidence, replay files.

use std::collections::BTreeMap;
use std::sync::atomic::{AtomicU64, Ordering};
use std::sync::Mutex;

use crate::json::Json;

pub const VERIF_DIR: &str = "/verif";

/// Where evidence and replay files are written (the mutation sweep redirects them to a scratch directory).
pub fn out_dir() -> String {
    std::env::var("VERIF_OUT_DIR").unwrap_or_else(|_| VERIF_DIR.to_string())
}
pub const REPO_DIR: &str = "/repo";

pub fn sha256_hex(data: &[u8]) -> String {
    use sha2::Digest as _;
    let mut h = sha2::Sha256::new();
    h.update(data);
    let d = h.finalize();
    let mut s = String::new();
    for b in d.iter() {
        s.push_str(&format!("{b:02x}"));
    }
    s
}

pub fn num_workers() -> usize {
    if let Ok(s) = std::env::var("VERIF_WORKERS") {
        if let Ok(n) = s.parse::<usize>() {
            return n.max(1);
        }
    }
    std::thread::available_parallelism()
        .map(|n| n.get())
        .unwrap_or(4)
        .min(16)
}

/// Runs `f(i)` for `i in 0..n` on a pool of workers; results are returned in
/// index order, so the worker count cannot influence anything.
pub fn run_pool<T: Send>(n: u64, workers: usize, f: impl Fn(u64) -> T + Sync) -> Vec<T> {
    let next = AtomicU64::new(0);
    let results: Mutex<Vec<(u64, T)>> = Mutex::new(Vec::new());
    std::thread::scope(|scope| {
        for _ in 0..workers.max(1) {
            scope.spawn(|| {
                let mut local = Vec::new();
                loop {
                    let i = next.fetch_add(1, Ordering::Relaxed);
                    if i >= n {
                        break;
                    }
                    local.push((i, f(i)));
                    if local.len() >= 64 {
                        results.lock().unwrap().append(&mut local);
                    }
                }
                results.lock().unwrap().append(&mut local);
            });
        }
    });
    let mut results = results.into_inner().unwrap();
    results.sort_by_key(|(i, _)| *i);
    results.into_iter().map(|(_, t)| t).collect()
}

/// Delta debugging over a list: returns a (1-)minimal sublist for which
/// `fails` still holds. `budget` bounds the number of test executions.
pub fn ddmin<T: Clone>(items: &[T], budget: &mut usize, mut fails: impl FnMut(&[T]) -> bool) -> Vec<T> {
    let mut cur: Vec<T> = items.to_vec();
    let mut n = 2usize;
    while cur.len() >= 1 && *budget > 0 {
        let chunk = cur.len().div_ceil(n).max(1);
        let mut reduced = false;
        // try complements
        let mut start = 0;
        while start < cur.len() && *budget > 0 {
            let end = (start + chunk).min(cur.len());
            let mut cand = Vec::with_capacity(cur.len() - (end - start));
            cand.extend_from_slice(&cur[..start]);
            cand.extend_from_slice(&cur[end..]);
            *budget -= 1;
            if fails(&cand) {
                cur = cand;
                n = n.saturating_sub(1).max(2);
                reduced = true;
                break;
            }
            start = end;
        }
        if !reduced {
            if chunk <= 1 {
                break;
            }
            n = (n * 2).min(cur.len().max(2));
        }
    }
    cur
}

// ---------------------------------------------------------------------------
// known findings

#[derive(Clone, Debug)]
pub struct KnownFinding {
    pub property: String,
    pub sig: String,
    pub text: String,
}

/// Parses /verif/known_findings.txt. Only `finding:` lines suppress.
pub fn load_known_findings() -> Vec<KnownFinding> {
    let path = format!("{VERIF_DIR}/known_findings.txt");
    let Ok(text) = std::fs::read_to_string(path) else {
        return Vec::new();
    };
    let mut out = Vec::new();
    for line in text.lines() {
        let line = line.trim();
        let Some(rest) = line.strip_prefix("finding:") else {
            continue;
        };
        let mut property = String::new();
        let mut sig = String::new();
        let mut words = Vec::new();
        for w in rest.split_whitespace() {
            if let Some(p) = w.strip_prefix("property=") {
                property = p.to_string();
            } else if let Some(s) = w.strip_prefix("sig=") {
                sig = s.to_string();
            } else {
                words.push(w);
            }
        }
        if !property.is_empty() && !sig.is_empty() {
            out.push(KnownFinding {
                property,
                sig,
                text: words.join(" "),
            });
        }
    }
    out
}

// ---------------------------------------------------------------------------
// repo identity

pub fn repo_head() -> String {
    std::process::Command::new("git")
        .args(["-C", REPO_DIR, "rev-parse", "--short", "HEAD"])
        .output()
        .ok()
        .map(|o| String::from_utf8_lossy(&o.stdout).trim().to_string())
        .unwrap_or_default()
}

pub fn repo_dirty_hash() -> String {
    std::process::Command::new("git")
        .args(["-C", REPO_DIR, "diff", "HEAD"])
        .output()
        .ok()
        .map(|o| sha256_hex(&o.stdout))
        .unwrap_or_default()
}

// ---------------------------------------------------------------------------
// violations and replay files

#[derive(Clone, Debug)]
pub struct Violation {
    pub property: String,
    pub engine: String,
    pub invariant: String,
    /// Key for "same failure" during minimisation and known-finding matching.
    pub class: String,
    pub detail: String,
    pub run_index: u64,
    pub scenario: Json,
    pub observed: Json,
    pub expected: Json,
    pub event_log_sha256: String,
    pub minimised: bool,
}

pub fn write_replay(v: &Violation, tier: &str, root_seed: u64) -> String {
    let dir = format!("{}/replays/{}", out_dir(), v.property);
    let _ = std::fs::create_dir_all(&dir);
    let name = format!(
        "{}-{}-{}-{}.json",
        v.engine,
        v.class.chars().map(|c| if c.is_ascii_alphanumeric() { c } else { '_' }).take(40).collect::<String>(),
        root_seed,
        v.run_index
    );
    let path = format!("{dir}/{name}");
    let j = Json::obj(vec![
        ("schema", Json::int(1)),
        ("property", Json::str(&v.property)),
        ("engine", Json::str(&v.engine)),
        ("tier", Json::str(tier)),
        ("root_seed", Json::Num(root_seed as f64)),
        ("run_index", Json::Num(v.run_index as f64)),
        ("minimised", Json::Bool(v.minimised)),
        (
            "violation",
            Json::obj(vec![
                ("invariant", Json::str(&v.invariant)),
                ("class", Json::str(&v.class)),
                ("detail", Json::str(&v.detail)),
            ]),
        ),
        ("scenario", v.scenario.clone()),
        ("observed", v.observed.clone()),
        ("expected", v.expected.clone()),
        ("event_log_sha256", Json::str(&v.event_log_sha256)),
        ("repo_head", Json::str(repo_head())),
        ("repo_dirty_sha256", Json::str(repo_dirty_hash())),
    ]);
    std::fs::write(&path, j.to_pretty()).expect("cannot write replay file");
    path
}

/// Splits violations into (new, known) using the known-findings file, prints
/// the interface lines and returns the process exit code.
pub fn report(
    property: &str,
    tier: &str,
    root_seed: u64,
    violations: &[Violation],
) -> (i32, usize, Vec<String>) {
    let known = load_known_findings();
    let mut printed_classes: BTreeMap<String, usize> = BTreeMap::new();
    let mut known_hit: Vec<String> = Vec::new();
    let mut new_count = 0usize;
    let mut ordered: Vec<&Violation> = violations.iter().collect();
    ordered.sort_by_key(|v| !v.minimised);
    for v in ordered {
        if let Some(k) = known
            .iter()
            .find(|k| k.property == v.property && v.class.contains(&k.sig))
        {
            let line = format!("KNOWN-FINDING: property={} {} [sig={}]", v.property, k.text, k.sig);
            if !known_hit.contains(&line) {
                println!("{line}");
                known_hit.push(line);
            }
            continue;
        }
        new_count += 1;
        let n = printed_classes.entry(v.class.clone()).or_insert(0);
        *n += 1;
        if *n == 1 && printed_classes.len() <= 5 {
            let path = write_replay(v, tier, root_seed);
            println!("VIOLATION property={} replay={}", v.property, path);
            println!(
                "  invariant={} class={} run={} detail={}",
                v.invariant,
                v.class,
                v.run_index,
                v.detail.chars().take(400).collect::<String>()
            );
        }
    }
    let _ = property;
    (if new_count > 0 { 1 } else { 0 }, new_count, known_hit)
}

// ---------------------------------------------------------------------------
// evidence

pub struct Evidence {
    pub property: String,
    pub tier: String,
    pub seed: u64,
    pub level: String,
    pub wall_s: f64,
    pub violations: usize,
    pub coverage: Vec<(String, Json)>,
    pub assumptions: Vec<String>,
}

impl Evidence {
    pub fn write(&self) {
        let dir = format!("{}/evidence", out_dir());
        let _ = std::fs::create_dir_all(&dir);
        let j = Json::Obj(vec![
            ("property_id".into(), Json::str(&self.property)),
            ("tier".into(), Json::str(&self.tier)),
            ("seed".into(), Json::Num(self.seed as f64)),
            ("level".into(), Json::str(&self.level)),
            ("coverage".into(), Json::Obj(self.coverage.clone())),
            (
                "assumptions".into(),
                Json::Arr(self.assumptions.iter().map(Json::str).collect()),
            ),
            ("wall_s".into(), Json::Num((self.wall_s * 1000.0).round() / 1000.0)),
            ("violations".into(), Json::Num(self.violations as f64)),
        ]);
        let path = format!("{dir}/{}.json", self.property);
        std::fs::write(&path, j.to_pretty()).expect("cannot write evidence");
    }
}

pub fn counts_to_json(map: &BTreeMap<String, u64>) -> Json {
    Json::Obj(
        map.iter()
            .map(|(k, v)| (k.clone(), Json::Num(*v as f64)))
            .collect(),
    )
}

pub fn merge_counts(into: &mut BTreeMap<String, u64>, from: &BTreeMap<String, u64>) {
    for (k, v) in from {
        *into.entry(k.clone()).or_insert(0) += v;
    }
}

pub fn bump(map: &mut BTreeMap<String, u64>, key: &str) {
    *map.entry(key.to_string()).or_insert(0) += 1;
}

pub fn bump_by(map: &mut BTreeMap<String, u64>, key: &str, n: u64) {
    *map.entry(key.to_string()).or_insert(0) += n;
}

/// Writes per-run event-log hashes for the determinism self-test (VERIF_HASH_DUMP=<file>).
pub fn dump_hashes(engine: &str, hashes: &[u64]) {
    if let Ok(path) = std::env::var("VERIF_HASH_DUMP") {
        use std::io::Write as _;
        let mut f = std::fs::OpenOptions::new().create(true).append(true).open(path).expect("cannot open hash dump");
        for (i, h) in hashes.iter().enumerate() {
            writeln!(f, "{engine} {i} {h:016x}").unwrap();
        }
    }
}

/// VERIF_RUNS=<n> overrides the number of runs of a batch (used by the self-tests).
pub fn runs_override(default: u64) -> u64 {
    std::env::var("VERIF_RUNS").ok().and_then(|s| s.parse().ok()).unwrap_or(default)
}

pub fn tier_from_args(args: &[String]) -> String {
    if args.iter().any(|a| a == "thorough") {
        "thorough".into()
    } else if let Ok(t) = std::env::var("VERIF_TIER") {
        if t == "thorough" && !args.iter().any(|a| a == "quick") { "thorough".into() } else { "quick".into() }
    } else {
        "quick".into()
    }
}

/// Base64 (standard alphabet, padded) — for byte content in replay files.
pub fn b64_encode(data: &[u8]) -> String {
    const T: &[u8; 64] = b"ABCDEFGHIJKLMNOPQRSTUVWXYZabcdefghijklmnopqrstuvwxyz0123456789+/";
    let mut out = String::new();
    for chunk in data.chunks(3) {
        let b = [chunk[0], *chunk.get(1).unwrap_or(&0), *chunk.get(2).unwrap_or(&0)];
        let n = (u32::from(b[0]) << 16) | (u32::from(b[1]) << 8) | u32::from(b[2]);
        out.push(T[(n >> 18) as usize & 63] as char);
        out.push(T[(n >> 12) as usize & 63] as char);
        out.push(if chunk.len() > 1 { T[(n >> 6) as usize & 63] as char } else { '=' });
        out.push(if chunk.len() > 2 { T[n as usize & 63] as char } else { '=' });
    }
    out
}

pub fn b64_decode(s: &str) -> Option<Vec<u8>> {
    fn val(c: u8) -> Option<u32> {
        match c {
            b'A'..=b'Z' => Some(u32::from(c - b'A')),
            b'a'..=b'z' => Some(u32::from(c - b'a') + 26),
            b'0'..=b'9' => Some(u32::from(c - b'0') + 52),
            b'+' => Some(62),
            b'/' => Some(63),
            _ => None,
        }
    }
    let bytes: Vec<u8> = s.bytes().filter(|b| !b.is_ascii_whitespace()).collect();
    if bytes.len() % 4 != 0 {
        return None;
    }
    let mut out = Vec::new();
    for chunk in bytes.chunks(4) {
        let pad = chunk.iter().filter(|&&c| c == b'=').count();
        let mut n = 0u32;
        for &c in chunk {
            n = (n << 6) | if c == b'=' { 0 } else { val(c)? };
        }
        out.push((n >> 16) as u8);
        if pad < 2 {
            out.push((n >> 8) as u8);
        }
        if pad < 1 {
            out.push(n as u8);
        }
    }
    Some(out)
}

pub fn panic_message(p: &Box<dyn std::any::Any + Send>) -> String {
    if let Some(s) = p.downcast_ref::<&str>() {
        (*s).to_string()
    } else if let Some(s) = p.downcast_ref::<String>() {
        s.clone()
    } else {
        "<non-string panic payload>".to_string()
    }
}

/// Silences the default panic printer (panics are caught and reported as
/// violations or harness errors); the location is kept in a thread local.
pub fn install_quiet_panic_hook() {
    std::panic::set_hook(Box::new(|info| {
        let loc = info
            .location()
            .map(|l| format!("{}:{}", l.file(), l.line()))
            .unwrap_or_default();
        LAST_PANIC_LOC.with(|c| *c.borrow_mut() = loc);
    }));
}

thread_local! {
    pub static LAST_PANIC_LOC: std::cell::RefCell<String> = const { std::cell::RefCell::new(String::new()) };
}

pub fn last_panic_loc() -> String {
    LAST_PANIC_LOC.with(|c| c.borrow().clone())
}

static MINIMISING: Mutex<Vec<String>> = Mutex::new(Vec::new());

/// True for the first caller per violation class in this process: only that
/// one pays for minimisation (a broken tree fails thousands of runs).
pub fn claim_minimisation(class: &str) -> bool {
    let mut g = MINIMISING.lock().unwrap();
    if g.iter().any(|c| c == class) {
        false
    } else {
        g.push(class.to_string());
        true
    }
}

/// Committed regression scenarios (replay files of repaired defects and of
/// seeded breakages): re-executed by every run of the property's check.
pub fn regression_files(property: &str) -> Vec<String> {
    let dir = format!("{VERIF_DIR}/regressions");
    let mut out = Vec::new();
    if let Ok(rd) = std::fs::read_dir(&dir) {
        for e in rd.flatten() {
            let name = e.file_name().to_string_lossy().to_string();
            if name.starts_with(&format!("{property}-")) && name.ends_with(".json") {
                out.push(format!("{dir}/{name}"));
            }
        }
    }
    out.sort();
    out
}

/// Runs the regression scenarios through `replay`; returns (count, failures as printed lines).
pub fn run_regressions(property: &str, replay: impl Fn(&Json) -> Result<Option<Violation>, String>) -> (usize, usize) {
    let files = regression_files(property);
    let known = load_known_findings();
    let mut failed = 0;
    for f in &files {
        let j = match std::fs::read_to_string(f).map_err(|e| e.to_string()).and_then(|t| crate::json::parse(&t)) {
            Ok(j) => j,
            Err(e) => {
                eprintln!("HARNESS ERROR: regression file {f}: {e}");
                std::process::exit(2);
            }
        };
        let Some(sc) = j.get("scenario") else {
            eprintln!("HARNESS ERROR: regression file {f} has no scenario");
            std::process::exit(2);
        };
        match replay(sc) {
            Ok(None) => {}
            Ok(Some(v)) => {
                if let Some(k) = known.iter().find(|k| k.property == v.property && v.class.contains(&k.sig)) {
                    println!("KNOWN-FINDING: property={} {} [sig={}]", v.property, k.text, k.sig);
                } else {
                    failed += 1;
                    println!("VIOLATION property={property} replay={f}");
                    println!("  invariant={} class={} detail={}", v.invariant, v.class, v.detail.chars().take(300).collect::<String>());
                }
            }
            Err(e) => {
                eprintln!("HARNESS ERROR: regression file {f}: {e}");
                std::process::exit(2);
            }
        }
    }
    (files.len(), failed)
}

//! C13 — imports resolve deterministically, load once and deliver exact content.
use crate::json::Json;
use crate::util::Violation;

pub fn run_batch(_tier: &str, _root: u64, _workers: usize, _scale: u64) -> i32 {
    eprintln!("HARNESS ERROR: C13 not built yet");
    2
}

pub fn replay(_scenario: &Json) -> Result<Option<Violation>, String> {
    Err("C13 not built yet".into())
}

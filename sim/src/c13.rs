//! C13 — imports resolve deterministically, load once and deliver exact content.
//! Directory-tree worlds for the real binary, a small resolution model whose
//! primitives (exists / canonical / bytes) are asked of the real tree, and
//! faults placed inside the lookups.

use std::collections::{BTreeMap, BTreeSet};
use std::path::{Path, PathBuf};
use std::time::Instant;

use crate::cliworld::{run_world, Entry, LogLine, Rule, RunOut, StdoutKind, World};
use crate::json::{self, Json};
use crate::rng::Rng;
use crate::util::{bump, Evidence, Violation};

#[derive(Clone, Debug, PartialEq)]
pub enum DepKind {
    Import,
    ImportStr,
    ImportBin,
    Ext(String),
}

#[derive(Clone, Debug)]
pub struct Dep {
    pub field: String,
    pub kind: DepKind,
    pub spelling: String,
    pub line: usize,
    pub col: usize,
}

#[derive(Clone, Debug)]
pub struct Module {
    pub id: String,
    pub deps: Vec<Dep>,
}

#[derive(Clone, Debug, PartialEq)]
pub enum MainKind {
    File(String),
    Exec,
    Stdin,
}

#[derive(Clone, Debug)]
pub struct C13World {
    pub world: World,
    /// module text by relative path (of the real file, not of symlinks)
    pub modules: BTreeMap<String, Module>,
    pub main: Module,
    pub main_kind: MainKind,
    pub jdirs: Vec<String>,
    /// (var, path as given) of --ext-code-file arguments
    pub ext_files: Vec<(String, String)>,
    /// (var, import spelling) of --ext-code arguments whose text is `{ tf: std.thisFile, m: import "<spelling>" }`
    pub ext_codes: Vec<(String, String)>,
}

pub fn module_text(id: &str, deps: &mut [Dep], lazy: Option<&str>, unused: Option<&str>) -> String {
    let mut lines: Vec<String> = Vec::new();
    lines.push(format!("std.trace(\"EVAL:{id}\", {{"));
    lines.push(format!("  id: \"{id}\","));
    lines.push("  file: std.thisFile,".to_string());
    lines.push("  deps: {".to_string());
    for d in deps.iter_mut() {
        let prefix = format!("    {}: ", d.field);
        d.line = lines.len() + 1;
        d.col = prefix.len() + 1;
        let e = match &d.kind {
            DepKind::Import => format!("import \"{}\"", d.spelling),
            DepKind::ImportStr => format!("importstr \"{}\"", d.spelling),
            DepKind::ImportBin => format!("importbin \"{}\"", d.spelling),
            DepKind::Ext(var) => format!("std.extVar(\"{var}\")"),
        };
        lines.push(format!("{prefix}{e},"));
    }
    lines.push("  },".to_string());
    if let Some(l) = lazy {
        lines.push(format!("  lazy:: import \"{l}\","));
    }
    if let Some(u) = unused {
        lines.push(format!("  unused: local x = import \"{u}\"; 0,"));
    }
    lines.push("})".to_string());
    lines.join("\n") + "\n"
}

const NAMES: &[&str] = &["a.libsonnet", "b.libsonnet", "c.libsonnet", "d.libsonnet"];

pub fn gen_world(seed: u64) -> C13World {
    let mut r = Rng::stream(seed, "world");
    let mut tree: Vec<(String, Entry)> = Vec::new();
    let main_kind = match r.below(8) {
        0 => MainKind::Exec,
        1 => MainKind::Stdin,
        2 => MainKind::File("main.jsonnet".into()),
        3 => MainKind::File("./app/main.jsonnet".into()),
        4 => MainKind::File("<ROOT>/app/main.jsonnet".into()),
        5 => MainKind::File("app/sub/../main.jsonnet".into()),
        _ => MainKind::File("app/main.jsonnet".into()),
    };
    let main_dir: Option<String> = match &main_kind {
        MainKind::File(p) if p == "main.jsonnet" => Some(".".into()),
        MainKind::File(_) => Some("app".into()),
        _ => None,
    };
    // directories
    let mut dirs: Vec<String> = vec!["app".into(), "app/sub".into()];
    let all_j = ["j0", "j1", "j2"];
    let nj = if main_dir.is_none() { 1 + r.usize_below(3) } else { r.usize_below(4) };
    let mut jdirs: Vec<String> = all_j.iter().take(nj).map(|s| s.to_string()).collect();
    r.shuffle(&mut jdirs);
    for d in &jdirs {
        dirs.push(d.clone());
    }
    // sub-directories of library directories: a two-component spelling found through -J, whose file then resolves
    // its own relative imports against THAT sub-directory
    for j in jdirs.clone() {
        if r.chance(1, 2) {
            dirs.push(format!("{j}/sub"));
        }
    }
    // copies may also sit in the working directory itself: the importer directory of a bare-file-name main, and
    // otherwise decoys that nothing may reach (virtual sources have NO importer directory: only -J applies)
    dirs.push(".".into());
    for d in &dirs {
        if d != "." {
            tree.push((d.clone(), Entry::Dir));
        }
    }
    let has_lnk = jdirs.contains(&"j0".to_string()) && r.chance(1, 2);
    if has_lnk {
        tree.push(("app/lnk".into(), Entry::Symlink("../j0".into())));
    }
    if r.chance(1, 4) {
        // a -J directory that does not exist, and one that holds none of the names
        jdirs.insert(r.usize_below(jdirs.len() + 1), "jmissing".into());
    }
    if r.chance(1, 4) {
        tree.push(("jempty".into(), Entry::Dir));
        jdirs.insert(r.usize_below(jdirs.len() + 1), "jempty".into());
    }
    // placement of copies
    let place_dirs: Vec<String> = dirs.clone();
    let mut copies: BTreeMap<String, Vec<String>> = BTreeMap::new(); // name -> dirs
    for n in NAMES.iter().chain(["t.txt", "u.bin"].iter()) {
        let mut ds = Vec::new();
        for d in &place_dirs {
            if r.chance(2, 5) {
                ds.push(d.clone());
            }
        }
        if ds.is_empty() {
            ds.push(r.pick(&place_dirs).clone());
        }
        copies.insert(n.to_string(), ds);
    }
    let path_of = |d: &str, n: &str| if d == "." { n.to_string() } else { format!("{d}/{n}") };
    let mut alias_d = false;
    let mut alias_j = false;
    // (alias spelling, root-relative path of the file it points at)
    let mut alias_targets: Vec<(String, String)> = Vec::new();
    // which module the alias points at: any of b, c, d - also modules with relative imports of their own, whose
    // directory for those imports is then the ALIAS's directory when the alias is what loaded them first
    let alias_name: &str = NAMES[1 + r.usize_below(NAMES.len() - 1)];
    if r.chance(1, 2) {
        // a symlink to a file under another name in the importer's directory
        let d = r.pick(&copies[alias_name]).clone();
        let target = path_of(&d, alias_name);
        let up = if main_dir.as_deref() == Some(".") { String::new() } else { "../".to_string() };
        let alias_path = if main_dir.as_deref() == Some(".") { "alias_d.libsonnet".to_string() } else { "app/alias_d.libsonnet".to_string() };
        tree.push((alias_path, Entry::Symlink(format!("{up}{target}"))));
        alias_d = true;
        if main_dir.is_some() {
            alias_targets.push(("alias_d.libsonnet".into(), target));
        }
    }
    let real_j: Vec<String> = jdirs.iter().filter(|j| matches!(j.as_str(), "j0" | "j1" | "j2")).cloned().collect();
    if !real_j.is_empty() && r.chance(1, 2) {
        // ... and one in a library directory, found through the -J search from anywhere
        let jd = r.pick(&real_j).clone();
        let d = r.pick(&copies[alias_name]).clone();
        let target = path_of(&d, alias_name);
        tree.push((format!("{jd}/alias_j.libsonnet"), Entry::Symlink(format!("../{target}"))));
        alias_j = true;
        alias_targets.push(("alias_j.libsonnet".into(), target));
    }
    // a symlinked DIRECTORY as a component of the import string (the same file is then also demanded directly)
    if has_lnk && main_dir.as_deref() == Some("app") {
        let cands: Vec<&str> = NAMES.iter().filter(|n| copies[**n].contains(&"j0".to_string())).cloned().collect();
        if !cands.is_empty() {
            let n = *r.pick(&cands);
            alias_targets.push((format!("lnk/{n}"), format!("j0/{n}")));
        }
    }
    if !real_j.is_empty() && r.chance(1, 2) {
        // ... and one below a library directory: <J>/slnk -> ../app/sub, found through the -J search
        let cands: Vec<&str> = NAMES.iter().filter(|n| copies[**n].contains(&"app/sub".to_string())).cloned().collect();
        if !cands.is_empty() {
            let jd = r.pick(&real_j).clone();
            tree.push((format!("{jd}/slnk"), Entry::Symlink("../app/sub".into())));
            let n = *r.pick(&cands);
            alias_targets.push((format!("slnk/{n}"), format!("app/sub/{n}")));
        }
    }
    // planted faults of the real kind
    let mut planted = if r.chance(1, 5) { r.below(7) + 1 } else { 0 };
    let mut extra_modules: Vec<(String, String)> = Vec::new(); // (root-relative path, id) of leaf modules planted below
    if planted == 7 {
        // an ABSOLUTE import string whose file does not exist, while the same path taken as a relative one exists below
        // every search location: absolute paths bypass the search, so this is an error at the import site
        let mut bases: Vec<String> = real_j.clone();
        if let Some(d) = &main_dir {
            bases.push(d.clone());
        }
        for b in bases {
            tree.push((path_of(&b, "nonexistent_abs_verif"), Entry::Dir));
            tree.push((path_of(&b, "nonexistent_abs_verif/ghost.libsonnet"), Entry::File(b"\"decoy: an absolute import must not be searched for\"\n".to_vec())));
        }
    }
    if planted == 6 {
        // a regular FILE named like the first component of a two-component spelling sits in the first search location
        // (the candidate there does not exist: ENOTDIR); the real file is in a later library directory
        let mut search: Vec<String> = Vec::new();
        if let Some(d) = &main_dir {
            search.push(d.clone());
        }
        search.extend(jdirs.iter().rev().filter(|j| real_j.contains(j)).cloned());
        if search.len() >= 2 {
            tree.push((path_of(&search[0], "pkg"), Entry::File(b"a file where a later search location has a directory\n".to_vec())));
            let k = 1 + r.usize_below(search.len() - 1);
            tree.push((path_of(&search[k], "pkg"), Entry::Dir));
            extra_modules.push((format!("{}/pkg/inner.libsonnet", search[k]), format!("inner@{}", search[k])));
        } else {
            planted = 1;
        }
    }
    if planted == 2 {
        tree.push(("app/dangling.libsonnet".into(), Entry::Symlink("nowhere.libsonnet".into())));
    }
    if planted == 4 {
        // a symlink loop: the existence test fails, the search moves on and finds nothing
        tree.push(("app/loop_a.libsonnet".into(), Entry::Symlink("loop_b.libsonnet".into())));
        tree.push(("app/loop_b.libsonnet".into(), Entry::Symlink("loop_a.libsonnet".into())));
    }
    if planted == 3 {
        tree.push(("app/isdir.libsonnet".into(), Entry::Dir));
        tree.push(("j0/isdir.libsonnet".into(), Entry::Dir));
    }
    let spell = |r: &mut Rng, name: &str, from_dir: Option<&str>, jd: &[String], copies: &BTreeMap<String, Vec<String>>| -> String {
        // pick a target copy, then a spelling that reaches it (plain spellings go through the search)
        let t = r.pick(&copies[name]).clone();
        let rel_to_target = |from: &str| -> String {
            let ups = if from == "." { 0 } else { from.split('/').count() };
            let tp = path_of(&t, name);
            format!("{}{}", "../".repeat(ups), tp)
        };
        let plain_ok = from_dir.map(|d| copies[name].iter().any(|c| c == d)).unwrap_or(false) || jd.iter().any(|j| copies[name].contains(j));
        if name == alias_name && (alias_d || alias_j) && r.chance(1, 3) {
            if alias_j && (!alias_d || r.chance(1, 2)) {
                return "alias_j.libsonnet".to_string();
            }
            if alias_d && (from_dir == Some("app") || from_dir == Some(".")) {
                return "alias_d.libsonnet".to_string();
            }
        }
        let pick = r.below(20);
        let pick = if pick <= 8 && !plain_ok && r.chance(9, 10) { 9 + r.below(5) } else { pick };
        match pick {
            0..=6 => name.to_string(),
            7 | 8 => format!("./{name}"),
            9..=14 if t.ends_with("/sub") && jd.iter().any(|j| t == format!("{j}/sub")) && r.chance(1, 2) => format!("sub/{name}"),
            9 | 10 => format!("<ROOT>/{}", path_of(&t, name)),
            11..=13 => match from_dir {
                Some(d) => rel_to_target(d),
                None if !jd.is_empty() => { let j: String = r.pick(jd).clone(); rel_to_target(&j) }
                None => name.to_string(),
            },
            14 if from_dir.map(|d| copies[name].contains(&format!("{d}/sub"))).unwrap_or(false) => format!("sub/{name}"),
            15 if from_dir == Some("app") && copies[name].contains(&"app".to_string()) => format!("sub/../{name}"),
            16 if has_lnk && from_dir == Some("app") && copies[name].contains(&"j0".to_string()) => format!("lnk/{name}"),
            // app/lnk -> ../j0, so app/lnk/.. is the root: textual folding of `lnk/..` would name another place
            17 if has_lnk && from_dir == Some("app") => format!("lnk/../{}", path_of(&t, name)),
            18 | 19 if alias_d && name == alias_name && (from_dir == Some("app") || from_dir == Some(".")) => "alias_d.libsonnet".to_string(),
            _ => name.to_string(),
        }
    };
    let mut modules: BTreeMap<String, Module> = BTreeMap::new();
    let ext_var: Option<(String, String)> = if r.chance(1, 3) {
        let n = *r.pick(&NAMES[1..]);
        let d = r.pick(&copies[n]).clone();
        Some(("xf".to_string(), path_of(&d, n)))
    } else {
        None
    };
    let gen_module = |r: &mut Rng, id: &str, name_idx: Option<usize>, dir: Option<&str>, is_main: bool| -> (Module, String) {
        let mut deps: Vec<Dep> = Vec::new();
        let first = name_idx.map(|i| i + 1).unwrap_or(0);
        let leaf = name_idx == Some(NAMES.len() - 1);
        let ndeps = if leaf { 0 } else { r.usize_below(4) + usize::from(is_main) };
        for k in 0..ndeps {
            let field = format!("d{k}");
            match r.below(8) {
                0 | 1 => {
                    // both kinds on both data files: the same file is often read as text and as bytes
                    let kind = if r.chance(1, 2) { DepKind::ImportStr } else { DepKind::ImportBin };
                    let name = if r.chance(1, 2) { "t.txt" } else { "u.bin" };
                    deps.push(Dep { field, kind, spelling: spell(r, name, dir, &jdirs, &copies), line: 0, col: 0 })
                }
                2 => deps.push(Dep { field, kind: DepKind::ImportStr, spelling: spell(r, NAMES[NAMES.len() - 1], dir, &jdirs, &copies), line: 0, col: 0 }),
                3 if is_main && ext_var.is_some() => deps.push(Dep { field, kind: DepKind::Ext(ext_var.as_ref().unwrap().0.clone()), spelling: String::new(), line: 0, col: 0 }),
                4 if is_main && first < NAMES.len() => {
                    // code given on the command line that imports: a virtual importer (only -J and absolute paths apply)
                    let n = NAMES[first + r.usize_below(NAMES.len() - first)];
                    let var = format!("xc{k}");
                    deps.push(Dep { field, kind: DepKind::Ext(var), spelling: spell(r, n, None, &jdirs, &copies), line: 1, col: 24 })
                }
                _ => {
                    if first < NAMES.len() {
                        let n = NAMES[first + r.usize_below(NAMES.len() - first)];
                        deps.push(Dep { field, kind: DepKind::Import, spelling: spell(r, n, dir, &jdirs, &copies), line: 0, col: 0 });
                    }
                }
            }
        }
        if r.chance(1, 4) {
            // one data file read as text AND as bytes by the same module, in either order (same spelling)
            let name = if r.chance(1, 2) { "t.txt" } else { "u.bin" };
            let sp = spell(r, name, dir, &jdirs, &copies);
            let mut kinds = vec![DepKind::ImportStr, DepKind::ImportBin];
            if r.chance(1, 2) {
                kinds.reverse();
            }
            for kind in kinds {
                let at = r.usize_below(deps.len() + 1);
                deps.insert(at, Dep { field: String::new(), kind, spelling: sp.clone(), line: 0, col: 0 });
            }
            for (k, d) in deps.iter_mut().enumerate() {
                d.field = format!("d{k}");
            }
        }
        if is_main && !alias_targets.is_empty() && r.chance(1, 2) {
            // the same file demanded through a symlink to it AND by a direct spelling, in either order
            let (alias_sp, target) = r.pick(&alias_targets).clone();
            let mut pair = vec![alias_sp, format!("<ROOT>/{target}")];
            if r.chance(1, 2) {
                pair.reverse();
            }
            for sp in pair {
                let at = r.usize_below(deps.len() + 1);
                deps.insert(at, Dep { field: String::new(), kind: DepKind::Import, spelling: sp, line: 0, col: 0 });
            }
            for (k, d) in deps.iter_mut().enumerate() {
                d.field = format!("d{k}");
            }
        }
        if is_main && planted > 0 {
            let sp = match planted {
                1 => "nonexistent_x.libsonnet",
                2 => "dangling.libsonnet",
                4 => "loop_a.libsonnet",
                6 => "pkg/inner.libsonnet",
                7 => "/nonexistent_abs_verif/ghost.libsonnet",
                5 => "<ROOT>/app/cyc_a.libsonnet",
                _ => "isdir.libsonnet",
            };
            let kind = if planted == 5 || r.chance(1, 2) { DepKind::Import } else { DepKind::ImportStr };
            let at = r.usize_below(deps.len() + 1);
            deps.insert(at, Dep { field: String::new(), kind, spelling: sp.to_string(), line: 0, col: 0 });
            for (k, d) in deps.iter_mut().enumerate() {
                d.field = format!("d{k}");
            }
        }
        let lazy = if r.chance(1, 2) { Some("missing_never_demanded.libsonnet") } else { None };
        let unused = if r.chance(1, 2) { Some(name_idx.map(|i| NAMES[r.usize_below(i + 1)]).unwrap_or("a.libsonnet")) } else { None };
        let text = module_text(id, &mut deps, lazy, unused);
        (Module { id: id.to_string(), deps }, text)
    };
    for (i, n) in NAMES.iter().enumerate() {
        for d in copies[*n].clone() {
            let id = format!("{}@{}", n.trim_end_matches(".libsonnet"), d);
            let (m, mut text) = gen_module(&mut r, &id, Some(i), Some(&d), false);
            if r.chance(1, 8) {
                // a source of several read-buffer sizes (trailing comment: positions of the import sites stay put)
                text.push_str("// ");
                for _ in 0..(900 + r.usize_below(4000)) {
                    text.push_str("padding é€🙂 ");
                }
                text.push('\n');
            }
            let p = path_of(&d, n);
            tree.push((p.clone(), Entry::File(text.into_bytes())));
            modules.insert(p, m);
        }
    }
    for d in copies["t.txt"].clone() {
        let content: Vec<u8> = match r.below(4) {
            0 => format!("text@{d}\r\nline2\n").into_bytes(),
            1 => {
                let mut v = format!("bad-utf8@{d}:").into_bytes();
                v.extend_from_slice(&[0xff, 0xfe, 0x00, 0xc3, 0x28, b'\n']);
                v
            }
            2 => Vec::new(),
            _ => format!("plain é🙂 @{d}").into_bytes(),
        };
        // now and then a text of several read-buffer sizes whose 2-, 3- and 4-byte characters straddle every
        // power-of-two offset (a decoder working chunk by chunk must not care where a chunk ends)
        let content = if r.chance(1, 8) {
            let mut v = "x".repeat(r.usize_below(10)).into_bytes();
            let n = 1500 + r.usize_below(6000);
            for _ in 0..n {
                v.extend_from_slice("aé€🙂".as_bytes());
            }
            v.extend_from_slice(format!("@{d}").as_bytes());
            v
        } else {
            content
        };
        tree.push((path_of(&d, "t.txt"), Entry::File(content)));
    }
    for d in copies["u.bin"].clone() {
        let content: Vec<u8> = if r.chance(1, 3) {
            (0..=255u8).collect()
        } else if r.chance(1, 10) {
            // larger than any single read
            let n = 20_000 + r.usize_below(50_000);
            (0..n).map(|i| (i * 7 + i / 251) as u8).collect()
        } else {
            (0..r.usize_below(12)).map(|_| r.below(256) as u8).collect()
        };
        let mut c = content;
        c.extend_from_slice(d.as_bytes());
        tree.push((path_of(&d, "u.bin"), Entry::File(c)));
    }
    for (p, id) in &extra_modules {
        let mut deps = Vec::new();
        let text = module_text(id, &mut deps, None, None);
        tree.push((p.clone(), Entry::File(text.into_bytes())));
        modules.insert(p.clone(), Module { id: id.clone(), deps });
    }
    if planted == 5 {
        // an import cycle that IS demanded: infinite recursion must be reported, each module evaluated at most once
        for (me, other) in [("cyc_a", "cyc_b"), ("cyc_b", "cyc_a")] {
            let mut deps = vec![Dep { field: "d0".into(), kind: DepKind::Import, spelling: format!("{other}.libsonnet"), line: 0, col: 0 }];
            let id = format!("{me}@app");
            let text = module_text(&id, &mut deps, None, None);
            tree.push((format!("app/{me}.libsonnet"), Entry::File(text.into_bytes())));
            modules.insert(format!("app/{me}.libsonnet"), Module { id, deps });
        }
    }
    let (main, main_text) = gen_module(&mut r, "main", None, main_dir.as_deref(), true);
    if real_j.len() >= 2 && r.chance(1, 4) {
        // the same library directory given more than once, by the same or another spelling, with other entries in
        // between: the list is searched as given (right-most first), nothing is merged
        let a = r.pick(&real_j).clone();
        let again = match r.below(4) {
            0 => a.clone(),
            1 => format!("./{a}/"),
            2 => format!("<ROOT>/{a}"),
            _ => format!("{a}/../{a}"),
        };
        let at = r.usize_below(jdirs.len() + 1);
        jdirs.insert(at, again);
    }
    let mut argv: Vec<String> = Vec::new();
    for j in &jdirs {
        argv.push(if r.chance(1, 3) { "--jpath".into() } else { "-J".into() });
        argv.push(j.clone());
    }
    let mut ext_codes: Vec<(String, String)> = Vec::new();
    for d in &main.deps {
        if let DepKind::Ext(var) = &d.kind {
            if var.starts_with("xc") {
                argv.push("--ext-code".into());
                argv.push(format!("{var}={{ tf: std.thisFile, m: import \"{}\" }}", d.spelling));
                ext_codes.push((var.clone(), d.spelling.clone()));
            }
        }
    }
    let mut ext_files = Vec::new();
    if let Some((var, path)) = &ext_var {
        if main.deps.iter().any(|d| matches!(&d.kind, DepKind::Ext(v) if !v.starts_with("xc"))) || r.chance(1, 2) {
            argv.push("--ext-code-file".into());
            argv.push(format!("{var}={path}"));
            ext_files.push((var.clone(), path.clone()));
        }
    }
    let mut stdin = None;
    match &main_kind {
        MainKind::File(p) => {
            let real = if p == "main.jsonnet" { "main.jsonnet".to_string() } else { "app/main.jsonnet".to_string() };
            tree.push((real, Entry::File(main_text.into_bytes())));
            argv.push(p.clone());
        }
        MainKind::Exec => {
            argv.push("-e".into());
            argv.push(main_text);
        }
        MainKind::Stdin => {
            stdin = Some(main_text.into_bytes());
            argv.push("-".into());
        }
    }
    // an ext var that is referenced but whose argument was not given would be a different error; keep consistent
    C13World { world: World { tree, argv, env: vec![("NO_COLOR".into(), "1".into())], stdin, stdout: StdoutKind::File }, modules, main, main_kind, jdirs, ext_files, ext_codes }
}

// ---------------------------------------------------------------------------
// reference model

#[derive(Clone, Debug)]
pub struct Site {
    pub importer_ids: String,
    pub importer_reprs: Vec<String>,
    pub line: usize,
    pub col: usize,
    pub spelling: String,
}

#[derive(Default)]
pub struct Predicted {
    pub tree: Option<Json>,
    /// ids of module instances created (each must be evaluated exactly once)
    pub instances: BTreeMap<String, Vec<String>>,
    /// further paths a module may have been loaded by (reached from an --ext-code-file argument's own spelling)
    pub extra_paths: BTreeMap<String, Vec<String>>,
    /// demanded import sites by the identity (relative canonical path) they resolve to
    pub sites_by_file: BTreeMap<String, Vec<Site>>,
    /// demanded sites that cannot succeed (missing / dangling / directory)
    pub failing_sites: Vec<Site>,
    pub ambiguous: bool,
    pub probes: BTreeMap<String, u64>,
}

struct Model<'a> {
    w: &'a C13World,
    root: &'a Path,
    search: Vec<String>,
    by_canon: BTreeMap<PathBuf, String>,
    p: Predicted,
    stack_guard: u32,
    dry: bool,
    /// the value of a module instance is fixed by the path it was FIRST loaded by (load once): later sightings reuse it
    memo: BTreeMap<PathBuf, Option<Json>>,
    /// candidate paths (as spelled, relative to the root) whose existence test fails under a stat fault
    absent: BTreeSet<String>,
}

impl Model<'_> {
    fn resolve(&mut self, importer_loaded: Option<&str>, spelling: &str) -> Option<String> {
        let sp = spelling.replace("<ROOT>", &self.root.to_string_lossy());
        let path = Path::new(&sp);
        if path.is_absolute() {
            let spelled = norm_dots(&path.strip_prefix(self.root).unwrap_or(path).to_string_lossy());
            return if path.exists() && !self.absent.contains(&spelled) { Some(sp) } else { None };
        }
        let mut cands: Vec<PathBuf> = Vec::new();
        if let Some(imp) = importer_loaded {
            if let Some(parent) = Path::new(imp).parent() {
                cands.push(parent.join(path));
            }
        }
        for j in &self.search {
            cands.push(Path::new(j).join(path));
        }
        for (k, c) in cands.iter().enumerate() {
            let full = if c.is_absolute() { c.clone() } else { self.root.join(c) };
            // the shim names a probed path by its spelling relative to the root (also when it was given absolute)
            let spelled = norm_dots(&full.strip_prefix(self.root).unwrap_or(&full).to_string_lossy());
            if full.exists() && !self.absent.contains(&spelled) {
                if importer_loaded.is_some() && k == 0 && cands.len() > 1 {
                    // does a -J copy exist as well? then the importer's directory shadowed it
                    if cands[1..].iter().any(|c2| self.root.join(c2).exists()) {
                        bump(&mut self.p.probes, "importer_dir_copy_shadows_a_J_copy");
                    }
                }
                if k >= 1 || importer_loaded.is_none() {
                    let later = cands[k + 1..].iter().filter(|c2| self.root.join(c2).exists()).count();
                    if later >= 1 {
                        bump(&mut self.p.probes, "rightmost_of_several_J_copies_wins");
                    }
                }
                if full.is_dir() && cands[k + 1..].iter().any(|c2| self.root.join(c2).is_file()) {
                    // a directory candidate shadows a later file: the statement fixes neither outcome
                    self.p.ambiguous = true;
                }
                return Some(c.to_string_lossy().to_string());
            }
        }
        None
    }

    fn rel_canon(&self, loaded: &str) -> Option<(PathBuf, String)> {
        let full = if Path::new(loaded).is_absolute() { PathBuf::from(loaded) } else { self.root.join(loaded) };
        let canon = full.canonicalize().ok()?;
        let rel = canon.strip_prefix(self.root).ok()?.to_string_lossy().to_string();
        Some((canon, rel))
    }

    fn site(&self, importer_id: &str, importer_reprs: &[String], d: &Dep) -> Site {
        Site { importer_ids: importer_id.to_string(), importer_reprs: importer_reprs.to_vec(), line: d.line, col: d.col, spelling: d.spelling.clone() }
    }

    /// Expected value of a module loaded by `loaded` (None = a demanded import below it fails).
    fn module(&mut self, loaded: &str) -> Option<Json> {
        let (canon, rel) = self.rel_canon(loaded)?;
        let m = self.w.modules.get(&rel)?.clone();
        let first = !self.by_canon.contains_key(&canon);
        if self.dry {
            let paths = self.p.extra_paths.entry(m.id.clone()).or_default();
            if paths.contains(&loaded.to_string()) {
                return Some(Json::Null);
            }
            paths.push(loaded.to_string());
            let reprs = vec![loaded.to_string()];
            return self.body(&m, Some(loaded), &reprs);
        }
        self.by_canon.entry(canon.clone()).or_insert_with(|| m.id.clone());
        let paths = self.p.instances.entry(m.id.clone()).or_default();
        if !paths.contains(&loaded.to_string()) {
            paths.push(loaded.to_string());
            if paths.len() == 2 {
                bump(&mut self.p.probes, "same_file_by_two_spellings");
            }
        }
        let _ = first;
        if let Some(v) = self.memo.get(&canon) {
            return v.clone();
        }
        // a module given as --ext-code-file was loaded by that spelling before anything ran
        let ext_path = self.w.ext_files.iter().map(|(_, p)| p.clone()).find(|p| self.rel_canon(p).map(|(c, _)| c == canon).unwrap_or(false));
        let first_loaded = ext_path.unwrap_or_else(|| loaded.to_string());
        let reprs = vec![first_loaded.clone()];
        let v = self.body(&m, Some(&first_loaded), &reprs);
        self.memo.insert(canon, v.clone());
        v
    }

    fn body(&mut self, m: &Module, loaded: Option<&str>, reprs: &[String]) -> Option<Json> {
        self.stack_guard += 1;
        if self.stack_guard > 64 {
            return None;
        }
        let mut deps: Vec<(String, Json)> = Vec::new();
        let mut ok = true;
        for d in &m.deps {
            let site = self.site(&m.id, reprs, d);
            let v = match &d.kind {
                DepKind::Ext(var) if var.starts_with("xc") => {
                    // `{ tf: std.thisFile, m: import "<spelling>" }` evaluated as the virtual file <ext:var>
                    let vrepr = vec![format!("<ext:{var}>")];
                    let vsite = Site { importer_ids: format!("<ext:{var}>"), importer_reprs: vrepr.clone(), line: 1, col: 24, spelling: d.spelling.clone() };
                    match self.resolve(None, &d.spelling) {
                        None => {
                            if !self.dry {
                                self.p.failing_sites.push(vsite);
                            }
                            None
                        }
                        Some(chosen) => {
                            if let (false, Some((_, rel))) = (self.dry, self.rel_canon(&chosen)) {
                                self.p.sites_by_file.entry(rel).or_default().push(vsite);
                            }
                            bump(&mut self.p.probes, "import_from_ext_code_text");
                            self.module(&chosen).map(|m| Json::Obj(vec![("m".to_string(), m), ("tf".to_string(), Json::Str(format!("<ext:{var}>")))]))
                        }
                    }
                }
                DepKind::Ext(var) => {
                    let path = self.w.ext_files.iter().find(|(v, _)| v == var).map(|(_, p)| p.clone());
                    match path {
                        Some(p) => {
                            bump(&mut self.p.probes, "module_shared_between_ext_code_file_and_import");
                            self.module(&p)
                        }
                        None => None,
                    }
                }
                kind => match self.resolve(loaded, &d.spelling) {
                    None => {
                        if !self.dry {
                            self.p.failing_sites.push(site);
                        }
                        None
                    }
                    Some(chosen) => {
                        let full = if Path::new(&chosen).is_absolute() { PathBuf::from(&chosen) } else { self.root.join(&chosen) };
                        if full.is_dir() || !full.exists() {
                            if !self.dry {
                                self.p.failing_sites.push(site);
                            }
                            None
                        } else {
                            if let (false, Some((_, rel))) = (self.dry, self.rel_canon(&chosen)) {
                                self.p.sites_by_file.entry(rel).or_default().push(site.clone());
                            }
                            if loaded.is_none() {
                                bump(&mut self.p.probes, "import_from_virtual_main");
                            }
                            match kind {
                                DepKind::Import => {
                                    let v = self.module(&chosen);
                                    if self.w.main.id != m.id {
                                        bump(&mut self.p.probes, "second_level_import");
                                    }
                                    v
                                }
                                DepKind::ImportStr => {
                                    let bytes = std::fs::read(&full).ok()?;
                                    if std::str::from_utf8(&bytes).is_err() {
                                        bump(&mut self.p.probes, "importstr_of_invalid_utf8");
                                    }
                                    Some(Json::Str(String::from_utf8_lossy(&bytes).into_owned()))
                                }
                                DepKind::ImportBin => {
                                    let bytes = std::fs::read(&full).ok()?;
                                    if bytes.len() >= 256 {
                                        bump(&mut self.p.probes, "importbin_with_all_256_byte_values");
                                    }
                                    Some(Json::Arr(bytes.iter().map(|b| Json::Num(f64::from(*b))).collect()))
                                }
                                DepKind::Ext(_) => unreachable!(),
                            }
                        }
                    }
                },
            };
            match v {
                Some(v) => deps.push((d.field.clone(), v)),
                None => {
                    ok = false;
                    break;
                }
            }
        }
        self.stack_guard -= 1;
        if !ok {
            return None;
        }
        let mut fields = vec![("deps".to_string(), Json::Obj(deps)), ("file".to_string(), Json::Str(format!("\u{0}FILE:{}", m.id))), ("id".to_string(), Json::str(&m.id))];
        fields.push(("unused".to_string(), Json::Num(0.0)));
        Some(Json::Obj(fields))
    }
}

fn norm_dots(p: &str) -> String {
    p.split('/').filter(|c| !c.is_empty() && *c != ".").collect::<Vec<_>>().join("/")
}

pub fn predict(w: &C13World, root: &Path) -> Predicted {
    predict_with(w, root, &BTreeSet::new())
}

/// Prediction when the existence test of the given spelled candidate paths fails (stat faults).
pub fn predict_with(w: &C13World, root: &Path, absent: &BTreeSet<String>) -> Predicted {
    let search: Vec<String> = w.jdirs.iter().rev().map(|j| j.replace("<ROOT>", &root.to_string_lossy())).collect();
    let mut m = Model { w, root, search, by_canon: BTreeMap::new(), p: Predicted::default(), stack_guard: 0, dry: false, memo: BTreeMap::new(), absent: absent.clone() };
    // --ext-code-file arguments are loaded (not evaluated) before anything runs
    let (loaded, reprs): (Option<String>, Vec<String>) = match &w.main_kind {
        MainKind::File(p) => {
            let p = p.replace("<ROOT>", &root.to_string_lossy());
            (Some(p.clone()), vec![p])
        }
        MainKind::Exec => (None, vec!["<cmdline>".into()]),
        MainKind::Stdin => (None, vec!["<stdin>".into()]),
    };
    m.p.instances.insert("main".into(), reprs.clone());
    let main = w.main.clone();
    let tree = m.body(&main, loaded.as_deref(), &reprs);
    m.p.tree = tree;
    // which further paths can modules have been loaded by, starting from the --ext-code-file spellings?
    let probes = std::mem::take(&mut m.p.probes);
    let ambiguous = m.p.ambiguous;
    m.dry = true;
    for (_, p) in w.ext_files.clone() {
        m.stack_guard = 0;
        let _ = m.module(&p);
    }
    m.p.probes = probes;
    m.p.ambiguous = ambiguous;
    m.p
}

/// Compares the observed JSON with the predicted tree. `file` fields must be
/// one of the paths the model says the file can be loaded by, and the same
/// for every occurrence of the same id.
fn compare(obs: &Json, exp: &Json, inst: &BTreeMap<String, Vec<String>>, ext_paths: &BTreeMap<String, Vec<String>>, seen_file: &mut BTreeMap<String, String>, path: &str) -> Result<(), String> {
    match (obs, exp) {
        (Json::Str(o), Json::Str(e)) if e.starts_with("\u{0}FILE:") => {
            let id = &e[6..];
            let mut allowed: Vec<String> = inst.get(id).cloned().unwrap_or_default();
            if let Some(x) = ext_paths.get(id) {
                allowed.extend(x.iter().cloned());
            }
            if !allowed.contains(o) {
                return Err(format!("P1 {path}: std.thisFile of {id} is {o:?}, not one of the paths it was loaded by {allowed:?}"));
            }
            match seen_file.get(id) {
                Some(prev) if prev != o => Err(format!("P2 {path}: {id} reports std.thisFile {o:?} here and {prev:?} elsewhere (loaded twice?)")),
                _ => {
                    seen_file.insert(id.to_string(), o.clone());
                    Ok(())
                }
            }
        }
        (Json::Obj(o), Json::Obj(e)) => {
            let ok: BTreeSet<&String> = o.iter().map(|(k, _)| k).collect();
            let ek: BTreeSet<&String> = e.iter().map(|(k, _)| k).collect();
            // `unused` is only present when the module has that field
            let ok2: BTreeSet<&String> = ok.iter().filter(|k| k.as_str() != "unused").copied().collect();
            let ek2: BTreeSet<&String> = ek.iter().filter(|k| k.as_str() != "unused").copied().collect();
            if ok2 != ek2 {
                return Err(format!("P1 {path}: fields {ok:?} != expected {ek:?}"));
            }
            for (k, ev) in e {
                if k == "unused" {
                    continue;
                }
                let ov = &o.iter().find(|(k2, _)| k2 == k).unwrap().1;
                compare(ov, ev, inst, ext_paths, seen_file, &format!("{path}.{k}"))?;
            }
            Ok(())
        }
        (Json::Arr(o), Json::Arr(e)) => {
            if o.len() != e.len() {
                return Err(format!("P1 {path}: array of {} items, expected {}", o.len(), e.len()));
            }
            for (i, (a, b)) in o.iter().zip(e.iter()).enumerate() {
                compare(a, b, inst, ext_paths, seen_file, &format!("{path}[{i}]"))?;
            }
            Ok(())
        }
        (a, b) if a == b => Ok(()),
        (a, b) => Err(format!("P1 {path}: got {} expected {}", trunc(&a.to_string()), trunc(&b.to_string()))),
    }
}

fn trunc(s: &str) -> String {
    if s.len() > 1500 { format!("{}…", s.chars().take(1500).collect::<String>()) } else { s.to_string() }
}

fn eval_counts(stderr: &str) -> BTreeMap<String, u32> {
    let mut m = BTreeMap::new();
    for line in stderr.lines() {
        if let Some(id) = line.strip_prefix("TRACE: EVAL:") {
            *m.entry(id.to_string()).or_insert(0) += 1;
        }
    }
    m
}

fn all_reprs(w: &C13World, pred: &Predicted, root: &str, id: &str) -> Vec<String> {
    if id.starts_with("<ext:") {
        return vec![id.to_string()];
    }
    let mut v: Vec<String> = pred.instances.get(id).cloned().unwrap_or_default();
    v.extend(pred.extra_paths.get(id).cloned().unwrap_or_default());
    // a module given as --ext-code-file is loaded by that path before any import of it
    for (_, p) in &w.ext_files {
        if let Ok(c) = Path::new(root).join(p).canonicalize() {
            if let Ok(rel) = c.strip_prefix(root) {
                if w.modules.get(&rel.to_string_lossy().to_string()).map(|m| m.id == id).unwrap_or(false) {
                    v.push(p.clone());
                }
            }
        }
    }
    v
}

fn site_reported(w: &C13World, pred: &Predicted, stderr: &str, site: &Site, root: &str) -> bool {
    let msg = format!("failed to import {:?}", site.spelling);
    if !stderr.contains(&msg) {
        return false;
    }
    all_reprs(w, pred, root, &site.importer_ids).iter().any(|r| {
        let r = r.replace(root, "<ROOT>");
        stderr.contains(&format!(" --> {r}:{}:{}", site.line, site.col))
    })
}

/// P1/P2 (and planted real faults, P5) on a fault-free run.
pub fn check_fault_free(w: &C13World, out: &RunOut, pred: &Predicted) -> Result<(), (String, String, String)> {
    let bad = |inv: &str, class: &str, msg: String| Err((inv.to_string(), class.to_string(), msg));
    if crate::c12::has_panic(&out.stderr) {
        return bad("I5", "panic", format!("panic on stderr: {}", trunc(&out.stderr)));
    }
    if out.timed_out || out.signal.is_some() {
        return bad("P1", "abnormal-exit", format!("timed out or killed: signal {:?}", out.signal));
    }
    let counts = eval_counts(&out.stderr);
    for (id, n) in &counts {
        if *n > 1 {
            return bad("P2", "module-evaluated-twice", format!("module {id} was evaluated {n} times"));
        }
    }
    if pred.ambiguous {
        if !matches!(out.exit, Some(0) | Some(1)) {
            return bad("P1", "abnormal-exit", format!("exit {:?}", out.exit));
        }
        return Ok(());
    }
    match &pred.tree {
        Some(tree) => {
            if out.exit != Some(0) {
                return bad("P1", "unexpected-failure", format!("model predicts success, tool exits {:?}; stderr {}", out.exit, trunc(&out.stderr)));
            }
            let text = String::from_utf8_lossy(&out.stdout);
            let obs = match json::parse(&text) {
                Ok(j) => j,
                Err(e) => return bad("P1", "stdout-not-json", format!("{e}")),
            };
            let ext_paths: BTreeMap<String, Vec<String>> = BTreeMap::new();
            let mut inst = pred.instances.clone();
            for m in w.modules.values() {
                let all = all_reprs(w, pred, &out.root, &m.id);
                if !all.is_empty() {
                    inst.insert(m.id.clone(), all);
                }
            }
            let mut seen = BTreeMap::new();
            if let Err(e) = compare(&obs, tree, &inst, &ext_paths, &mut seen, "$") {
                let class = if e.starts_with("P2") { "thisfile-inconsistent" } else if e.contains("std.thisFile") { "thisfile-wrong" } else { "resolution-or-content-differs" };
                return bad(if e.starts_with("P2") { "P2" } else { "P1" }, class, e);
            }
            // P2: exactly one EVAL per instance, none for files the model never loads
            for id in pred.instances.keys() {
                if counts.get(id).copied().unwrap_or(0) != 1 {
                    return bad("P2", "module-not-evaluated-once", format!("module {id} evaluated {} times, model says once", counts.get(id).copied().unwrap_or(0)));
                }
            }
            for id in counts.keys() {
                if !pred.instances.contains_key(id) {
                    return bad("P2", "undemanded-module-evaluated", format!("module {id} was evaluated but no demanded import resolves to it"));
                }
            }
            Ok(())
        }
        None => {
            // a demanded import cannot succeed: error at (one of) the failing sites
            if out.exit != Some(1) {
                return bad("P5", "missing-import-not-an-error", format!("a demanded import cannot be resolved but the tool exits {:?}", out.exit));
            }
            if !out.stdout.is_empty() {
                return bad("P5", "stdout-on-import-failure", "stdout not empty".into());
            }
            if pred.failing_sites.is_empty() {
                return Ok(());
            }
            if !pred.failing_sites.iter().any(|s| site_reported(w, pred, &out.stderr, s, &out.root)) {
                return bad("P5", "import-site-not-reported", format!("none of the failing import sites {:?} is reported on stderr: {}", pred.failing_sites.iter().map(|s| format!("{}:{}:{} {:?}", s.importer_reprs.join("|"), s.line, s.col, s.spelling)).collect::<Vec<_>>(), trunc(&out.stderr)));
            }
            Ok(())
        }
    }
}

#[derive(Clone, Debug)]
pub struct FaultPlan {
    pub rules: Vec<Rule>,
    pub hard: bool,
    /// short reads only: no call fails, so the run must be indistinguishable from the fault-free one
    pub invisible: bool,
    pub kind: String,
    pub file: String,
}

pub fn fault_plans(log: &[LogLine], rng: &mut Rng, limit: usize) -> Vec<FaultPlan> {
    let mut plans = Vec::new();
    for (op, target, k, _is_out, _last) in crate::c12::instances(log) {
        let Some(file) = target.strip_prefix("path:") else { continue };
        let nth = format!("nth:{k}");
        let mk = |rules: Vec<Rule>, hard: bool, kind: &str| FaultPlan { rules, hard, invisible: kind == "read:short", kind: kind.to_string(), file: file.to_string() };
        match op.as_str() {
            "open" => {
                for e in ["EACCES", "EIO", "EMFILE", "ENOENT"] {
                    plans.push(mk(vec![Rule::new("open", &target, &nth, &format!("errno:{e}"))], true, &format!("open:{e}")));
                }
                plans.push(mk(vec![Rule::new("open", &target, &nth, "eintr")], false, "open:eintr"));
            }
            "read" => {
                plans.push(mk(vec![Rule::new("read", &target, &nth, "errno:EIO")], true, "read:EIO"));
                plans.push(mk(vec![Rule::new("read", &target, &nth, "eintr")], false, "read:eintr"));
                let n = 1 + rng.below(9);
                plans.push(mk(vec![Rule::new("read", &target, &format!("from:{k}"), &format!("short:{n}"))], false, "read:short"));
                plans.push(mk((0..3).map(|d| Rule::new("read", &target, &format!("nth:{}", k + d), "eintr")).collect(), false, "read:eintr-x3"));
            }
            "realpath" => {
                for e in ["EACCES", "ELOOP"] {
                    plans.push(mk(vec![Rule::new("realpath", &target, &nth, &format!("errno:{e}"))], true, &format!("realpath:{e}")));
                }
            }
            _ => {}
        }
    }
    if plans.len() > limit {
        rng.shuffle(&mut plans);
        plans.truncate(limit);
    }
    plans
}

/// P5 under a shim fault on `plan.file`.
pub fn check_fault_run(w: &C13World, base: &RunOut, pred: &Predicted, plan: &FaultPlan, out: &RunOut) -> Result<(), (String, String, String)> {
    let bad = |inv: &str, class: &str, msg: String| Err((inv.to_string(), format!("{class}:{}", plan.kind), msg));
    if crate::c12::has_panic(&out.stderr) {
        return bad("I5", "panic", format!("panic on stderr: {}", trunc(&out.stderr)));
    }
    if out.timed_out || out.signal.is_some() || !matches!(out.exit, Some(0) | Some(1)) {
        return bad("P5", "abnormal-exit", format!("exit {:?} signal {:?}", out.exit, out.signal));
    }
    for (id, n) in eval_counts(&out.stderr) {
        if n > 1 {
            return bad("P2", "module-evaluated-twice", format!("module {id} was evaluated {n} times"));
        }
    }
    let fired_err = out.log.iter().any(|l| l.injected && matches!(&l.result, Err(e) if e != "EINTR"));
    let fired = out.log.iter().any(|l| l.injected);
    if !fired || (!plan.hard && out.exit == Some(0)) || pred.ambiguous || plan.invisible {
        // invisible: the run must be indistinguishable from the fault-free one
        if pred.ambiguous {
            return Ok(());
        }
        if out.exit != base.exit || out.stdout != base.stdout {
            return bad("P5", "transparent-fault-changed-output", format!("exit {:?} vs {:?}, or stdout differs, although the fault is transparent or never fired", out.exit, base.exit));
        }
        if eval_counts(&out.stderr) != eval_counts(&base.stderr) {
            return bad("P2", "transparent-fault-changed-evaluations", "EVAL trace lines differ from the fault-free run".into());
        }
        return Ok(());
    }
    if base.exit != Some(0) {
        // the world already fails for a planted reason; it must still fail
        if out.exit == Some(0) {
            return bad("P5", "failing-world-succeeded", "exit 0 under a fault although the fault-free run fails".into());
        }
        return Ok(());
    }
    if plan.hard && fired_err && out.exit == Some(0) {
        return bad("P5", "unreadable-file-not-an-error", format!("{} on {} was answered with exit 0", plan.kind, plan.file));
    }
    if out.exit == Some(1) {
        if !out.stdout.is_empty() {
            return bad("P5", "stdout-on-import-failure", "stdout not empty although the run failed".into());
        }
        let file_canon0 = Path::new(&out.root).join(&plan.file).canonicalize().ok().and_then(|c| c.strip_prefix(&out.root).ok().map(|r| r.to_string_lossy().to_string())).unwrap_or_else(|| plan.file.clone());
        let is_main = matches!(&w.main_kind, MainKind::File(_)) && (file_canon0 == "app/main.jsonnet" || file_canon0 == "main.jsonnet");
        let is_ext_arg = w.ext_files.iter().any(|(_, p)| Path::new(&out.root).join(p).canonicalize().ok().map(|c| c.ends_with(&plan.file)).unwrap_or(false));
        // the shim names files as spelled; sites are keyed by canonical identity
        let file_canon = Path::new(&out.root).join(&plan.file).canonicalize().ok().and_then(|c| c.strip_prefix(&out.root).ok().map(|r| r.to_string_lossy().to_string())).unwrap_or_else(|| plan.file.clone());
        let sites = pred.sites_by_file.get(&file_canon).cloned().unwrap_or_default();
        if sites.is_empty() && !is_main && !is_ext_arg {
            return bad("P5", "fault-on-undemanded-file-visible", format!("no demanded import resolves to {} yet the run failed: {}", plan.file, trunc(&out.stderr)));
        }
        if !is_main && !is_ext_arg && !sites.iter().any(|s| site_reported(w, pred, &out.stderr, s, &out.root)) {
            return bad("P5", "import-site-not-reported", format!("failure of {} is not reported at any import site resolving to it {:?}: {}", plan.file, sites.iter().map(|s| format!("{}:{}:{}", s.importer_reprs.join("|"), s.line, s.col)).collect::<Vec<_>>(), trunc(&out.stderr)));
        }
        if out.stderr.trim().is_empty() {
            return bad("P5", "silent-failure", "nothing on stderr".into());
        }
    }
    Ok(())
}

pub fn world_to_json(w: &C13World, plan: &[Rule]) -> Json {
    let mut f = w.world.to_json(plan);
    let dep_json = |d: &Dep| {
        Json::obj(vec![
            ("field", Json::str(&d.field)),
            ("kind", Json::str(match &d.kind { DepKind::Import => "import".to_string(), DepKind::ImportStr => "importstr".to_string(), DepKind::ImportBin => "importbin".to_string(), DepKind::Ext(v) => format!("ext:{v}") })),
            ("spelling", Json::str(&d.spelling)),
            ("line", Json::int(d.line as i64)),
            ("col", Json::int(d.col as i64)),
        ])
    };
    let mod_json = |m: &Module| Json::obj(vec![("id", Json::str(&m.id)), ("deps", Json::Arr(m.deps.iter().map(dep_json).collect()))]);
    f.push((
        "model".into(),
        Json::obj(vec![
            ("kind", Json::str("c13")),
            ("modules", Json::Obj(w.modules.iter().map(|(k, m)| (k.clone(), mod_json(m))).collect())),
            ("main", mod_json(&w.main)),
            ("main_kind", Json::str(match &w.main_kind { MainKind::File(p) => format!("file:{p}"), MainKind::Exec => "exec".into(), MainKind::Stdin => "stdin".into() })),
            ("jdirs", Json::Arr(w.jdirs.iter().map(Json::str).collect())),
            ("ext_files", Json::Arr(w.ext_files.iter().map(|(v, p)| Json::Arr(vec![Json::str(v), Json::str(p)])).collect())),
            ("ext_codes", Json::Arr(w.ext_codes.iter().map(|(v, p)| Json::Arr(vec![Json::str(v), Json::str(p)])).collect())),
        ]),
    ));
    Json::Obj(f)
}

pub fn world_from_json(j: &Json) -> Option<(C13World, Vec<Rule>)> {
    let (world, plan) = World::from_json(j)?;
    let m = j.get("model")?;
    let dep = |d: &Json| -> Option<Dep> {
        let k = d.get("kind")?.as_str()?;
        Some(Dep {
            field: d.get("field")?.as_str()?.to_string(),
            kind: match k { "import" => DepKind::Import, "importstr" => DepKind::ImportStr, "importbin" => DepKind::ImportBin, other => DepKind::Ext(other.strip_prefix("ext:")?.to_string()) },
            spelling: d.get("spelling")?.as_str()?.to_string(),
            line: d.get("line")?.as_u64()? as usize,
            col: d.get("col")?.as_u64()? as usize,
        })
    };
    let module = |m: &Json| -> Option<Module> { Some(Module { id: m.get("id")?.as_str()?.to_string(), deps: m.get("deps")?.as_arr()?.iter().map(dep).collect::<Option<Vec<_>>>()? }) };
    let mut modules = BTreeMap::new();
    for (k, v) in m.get("modules")?.as_obj()? {
        modules.insert(k.clone(), module(v)?);
    }
    let mk = m.get("main_kind")?.as_str()?;
    let main_kind = match mk { "exec" => MainKind::Exec, "stdin" => MainKind::Stdin, other => MainKind::File(other.strip_prefix("file:")?.to_string()) };
    Some((
        C13World {
            world,
            modules,
            main: module(m.get("main")?)?,
            main_kind,
            jdirs: m.get("jdirs")?.as_arr()?.iter().filter_map(|s| s.as_str().map(String::from)).collect(),
            ext_files: m.get("ext_files")?.as_arr()?.iter().filter_map(|e| { let a = e.as_arr()?; Some((a.first()?.as_str()?.to_string(), a.get(1)?.as_str()?.to_string())) }).collect(),
            ext_codes: m.get("ext_codes").and_then(|x| x.as_arr()).map(|a| a.iter().filter_map(|e| { let a = e.as_arr()?; Some((a.first()?.as_str()?.to_string(), a.get(1)?.as_str()?.to_string())) }).collect()).unwrap_or_default(),
        },
        plan,
    ))
}

pub fn violation(w: &C13World, plan: &[Rule], inv: &str, class: &str, detail: &str, run_index: u64, out: &RunOut, minimised: bool) -> Violation {
    Violation {
        property: "C13".into(),
        engine: "sim-cli".into(),
        invariant: inv.into(),
        class: class.into(),
        detail: detail.into(),
        run_index,
        scenario: world_to_json(w, plan),
        observed: Json::obj(vec![("exit", out.exit.map(Json::int).unwrap_or(Json::Null)), ("stdout", Json::str(trunc(&String::from_utf8_lossy(&out.stdout).replace(&out.root, "<ROOT>")))), ("stderr", Json::str(trunc(&out.stderr)))]),
        expected: Json::str("see invariant"),
        event_log_sha256: out.identity(),
        minimised,
    }
}

#[derive(Default)]
pub struct Stats {
    pub worlds: u64,
    pub spawns: u64,
    pub fault_runs: u64,
    pub io_calls: u64,
    pub fault_kinds_fired: BTreeMap<String, u64>,
    pub probes: BTreeMap<String, u64>,
    pub tuples: Vec<u64>,
    pub base_identity: u64,
}

fn shape_class(w: &C13World) -> String {
    format!("{:?}|J{}|ext{}|mods{}", match &w.main_kind { MainKind::File(p) => p.replace("<ROOT>", "ABS"), MainKind::Exec => "exec".into(), MainKind::Stdin => "stdin".into() }, w.jdirs.len(), w.ext_files.len(), w.modules.len())
}

pub fn run_one(root_seed: u64, i: u64, max_plans: usize, st: &mut Stats) -> Option<Violation> {
    let seed = crate::rng::run_seed(root_seed, "sim-cli-c13", i);
    let w = gen_world(seed);
    let mut frng = Rng::stream(seed, "fault");
    st.worlds += 1;
    let base = run_world(&w.world, &[]);
    st.spawns += 1;
    st.io_calls += base.log.len() as u64;
    st.base_identity = crate::rng::fnv1a64(&base.identity());
    if let Ok(d) = std::env::var("VERIF_DEBUG_IDENTITY") {
        if i == 0 {
            let _ = std::fs::write(d, base.identity_text());
        }
    }
    let root = PathBuf::from(&base.root);
    let pred = predict(&w, &root);
    crate::util::merge_counts(&mut st.probes, &pred.probes);
    if pred.tree.is_none() {
        if std::env::var("VERIF_DEBUG").is_ok() {
            eprintln!("unresolvable in world {i}: {:?} main={:?} jdirs={:?}", pred.failing_sites.iter().map(|s| format!("{}:{}", s.importer_ids, s.spelling)).collect::<Vec<_>>(), w.main_kind, w.jdirs);
        }
        bump(&mut st.probes, "world_with_unresolvable_demanded_import");
        bump(&mut st.fault_kinds_fired, "real:missing-dangling-or-directory-candidate");
    }
    if pred.ambiguous {
        bump(&mut st.probes, "ambiguous_directory_candidate_worlds");
    }
    let spell_kinds: BTreeSet<&str> = w.main.deps.iter().chain(w.modules.values().flat_map(|m| m.deps.iter())).map(|d| if d.spelling.starts_with("<ROOT>") { "abs" } else if d.spelling.starts_with("./") { "dot" } else if d.spelling.contains("..") { "dotdot" } else if d.spelling.starts_with("lnk/") { "symlinked-dir" } else if d.spelling.starts_with("alias") { "symlink-file" } else if d.spelling.contains('/') { "subdir" } else { "plain" }).collect();
    st.tuples.push(crate::rng::fnv1a64(&format!("{}|{:?}|none", shape_class(&w), spell_kinds)));
    if let Err((inv, class, msg)) = check_fault_free(&w, &base, &pred) {
        return Some(violation(&w, &[], &inv, &class, &msg, i, &base, false));
    }
    // P3 determinism
    if i % 8 == 0 {
        let again = run_world(&w.world, &[]);
        st.spawns += 1;
        if again.identity() != base.identity() {
            return Some(violation(&w, &[], "P3", "nondeterministic-run", "two executions of the same world differ (exit status, stdout, stderr or I/O trace)", i, &again, false));
        }
        bump(&mut st.probes, "determinism_reexecutions");
    }
    // P4: a -J directory holding none of the names changes nothing; permuting -J follows the model
    if i % 8 == 1 && pred.tree.is_some() && !pred.ambiguous {
        let mut w2 = w.clone();
        w2.world.tree.push(("jnone".into(), Entry::Dir));
        let pos = frng.usize_below(w2.jdirs.len() + 1);
        w2.jdirs.insert(pos, "jnone".into());
        w2.world.argv.insert(pos * 2, "-J".into());
        w2.world.argv.insert(pos * 2 + 1, "jnone".into());
        let o2 = run_world(&w2.world, &[]);
        st.spawns += 1;
        // judged by the model, not by byte equality with the original world: a spelling such as `../j1/c.libsonnet`
        // resolves through ANY existing -J directory, so an empty one placed earlier in the search legitimately
        // changes the path (and std.thisFile) the file is loaded by
        let root2 = PathBuf::from(&o2.root);
        let pred2 = predict(&w2, &root2);
        if let Err((inv, class, msg)) = check_fault_free(&w2, &o2, &pred2) {
            return Some(violation(&w2, &[], &inv, &format!("extra-empty-J:{class}"), &format!("(after adding a -J directory that holds none of the names) {msg}"), i, &o2, false));
        }
        bump(&mut st.probes, "P4_empty_J_dir_checked");
        if w.jdirs.len() >= 2 {
            let mut w3 = w.clone();
            let n = w3.jdirs.len();
            w3.jdirs.reverse();
            let jargs: Vec<String> = w3.jdirs.iter().flat_map(|j| vec!["-J".to_string(), j.clone()]).collect();
            w3.world.argv.splice(0..n * 2, jargs);
            let o3 = run_world(&w3.world, &[]);
            st.spawns += 1;
            let root3 = PathBuf::from(&o3.root);
            let pred3 = predict(&w3, &root3);
            if let Err((inv, class, msg)) = check_fault_free(&w3, &o3, &pred3) {
                return Some(violation(&w3, &[], &inv, &format!("permuted-J:{class}"), &format!("(after reversing the -J options) {msg}"), i, &o3, false));
            }
            bump(&mut st.probes, "P4_permuted_J_checked");
        }
    }
    // faults inside the lookups
    let plans = fault_plans(&base.log, &mut frng, max_plans);
    for plan in &plans {
        let out = run_world(&w.world, &plan.rules);
        st.spawns += 1;
        st.fault_runs += 1;
        st.io_calls += out.log.len() as u64;
        if out.log.iter().any(|l| l.injected) {
            bump(&mut st.fault_kinds_fired, &plan.kind);
            let demanded = pred.sites_by_file.contains_key(&plan.file);
            st.tuples.push(crate::rng::fnv1a64(&format!("{}|{}|{}", shape_class(&w), plan.kind, demanded)));
            if pred.sites_by_file.get(&plan.file).map(|s| s.iter().any(|x| x.importer_ids != "main")).unwrap_or(false) {
                bump(&mut st.probes, "fault_on_second_level_import");
            }
        }
        if let Err((inv, class, msg)) = check_fault_run(&w, &base, &pred, plan, &out) {
            let again = run_world(&w.world, &plan.rules);
            st.spawns += 1;
            if check_fault_run(&w, &base, &pred, plan, &again).is_err() {
                return Some(violation(&w, &plan.rules, &inv, &class, &msg, i, &out, false));
            }
        }
    }
    // stat-class faults on candidate paths: the existence test fails, so the statement allows either "treated as
    // absent" (the search moves on; the model is re-run with that candidate absent) or an error
    let mut stat_targets: Vec<String> = base.log.iter().filter(|l| l.op == "stat" && l.result.is_ok()).map(|l| l.target.clone()).collect();
    stat_targets.sort();
    stat_targets.dedup();
    frng.shuffle(&mut stat_targets);
    for t in stat_targets.into_iter().take(3) {
        let errno = *frng.pick(&["EACCES", "ELOOP", "EIO"]);
        let rules = vec![Rule::new("stat", &t, "always", &format!("errno:{errno}"))];
        let out = run_world(&w.world, &rules);
        st.spawns += 1;
        st.fault_runs += 1;
        if out.log.iter().any(|l| l.injected) {
            bump(&mut st.fault_kinds_fired, &format!("stat:{errno}"));
        }
        if let Err(v) = check_stat_run(&w, &rules, &t, &out, i) {
            let again = run_world(&w.world, &rules);
            st.spawns += 1;
            if check_stat_run(&w, &rules, &t, &again, i).is_err() {
                return Some(v);
            }
        }
    }
    None
}

fn check_stat_run(w: &C13World, rules: &[Rule], target: &str, out: &RunOut, i: u64) -> Result<(), Violation> {
    if crate::c12::has_panic(&out.stderr) || out.timed_out || out.signal.is_some() || !matches!(out.exit, Some(0) | Some(1)) {
        return Err(violation(w, rules, "I5", "stat-fault:abnormal-exit", &format!("exit {:?} signal {:?} under a stat fault on {target}", out.exit, out.signal), i, out, false));
    }
    for (id, n) in eval_counts(&out.stderr) {
        if n > 1 {
            return Err(violation(w, rules, "P2", "stat-fault:module-evaluated-twice", &format!("module {id} was evaluated {n} times"), i, out, false));
        }
    }
    if out.exit == Some(1) {
        // reported as an error: allowed, provided nothing reached stdout
        if !out.stdout.is_empty() {
            return Err(violation(w, rules, "P5", "stat-fault:stdout-on-failure", "stdout not empty although the run failed", i, out, false));
        }
        return Ok(());
    }
    // treated as absent: the output must be what the model predicts without that candidate
    let absent: BTreeSet<String> = [norm_dots(target.strip_prefix("path:").unwrap_or(target))].into_iter().collect();
    let root = PathBuf::from(&out.root);
    let pred = predict_with(w, &root, &absent);
    match check_fault_free(w, out, &pred) {
        Ok(()) => Ok(()),
        Err((inv, class, msg)) => {
            // ... or as present after all (a tool may go on and open the file, which is there): the fault-free prediction
            let present = predict(w, &root);
            if check_fault_free(w, out, &present).is_ok() {
                return Ok(());
            }
            Err(violation(w, rules, &inv, &format!("stat-fault:{class}"), &format!("(existence test of {target} failing) {msg}"), i, out, false))
        }
    }
}

pub fn replay(scenario: &Json) -> Result<Option<Violation>, String> {
    let (w, plan) = world_from_json(scenario).ok_or("bad c13 scenario")?;
    let base = run_world(&w.world, &[]);
    let root = PathBuf::from(&base.root);
    let pred = predict(&w, &root);
    if let Err((inv, class, msg)) = check_fault_free(&w, &base, &pred) {
        return Ok(Some(violation(&w, &[], &inv, &class, &msg, 0, &base, true)));
    }
    if plan.is_empty() {
        return Ok(None);
    }
    if plan[0].op == "stat" {
        let out = run_world(&w.world, &plan);
        return Ok(check_stat_run(&w, &plan, &plan[0].target.clone(), &out, 0).err());
    }
    let file = plan[0].target.strip_prefix("path:").unwrap_or("").to_string();
    let hard = plan.iter().any(|r| r.act.starts_with("errno:"));
    let a = plan[0].act.replace("errno:", "");
    let kind = format!("{}:{}", plan[0].op, if a.starts_with("short") { "short".to_string() } else { a });
    let kind = if plan.len() == 3 && plan.iter().all(|r| r.act == "eintr") { format!("{}:eintr-x3", plan[0].op) } else { kind };
    let fp = FaultPlan { rules: plan.clone(), hard, invisible: plan.iter().all(|r| r.act.starts_with("short")), kind, file };
    let out = run_world(&w.world, &plan);
    Ok(check_fault_run(&w, &base, &pred, &fp, &out).err().map(|(inv, class, msg)| violation(&w, &plan, &inv, &class, &msg, 0, &out, true)))
}

pub fn run_batch(tier: &str, root: u64, workers: usize, scale: u64) -> i32 {
    let (worlds, max_plans) = if tier == "thorough" { (5_000 * scale, 60usize) } else { (300 * scale, 24usize) };
    let worlds = crate::util::runs_override(worlds);
    let start = Instant::now();
    let results = crate::util::run_pool(worlds, workers, |i| {
        let mut st = Stats::default();
        let r = std::panic::catch_unwind(std::panic::AssertUnwindSafe(|| run_one(root, i, max_plans, &mut st)));
        match r {
            Ok(v) => {
                // only the first failing world per violation class pays for minimisation
                let v = v.map(|v| if crate::util::claim_minimisation(&v.class) { crate::climin::minimise_c13(&v) } else { v });
                (st, v)
            }
            Err(p) => {
                eprintln!("HARNESS ERROR: {} @ {}", crate::util::panic_message(&p), crate::util::last_panic_loc());
                std::process::exit(2);
            }
        }
    });
    let wall = start.elapsed().as_secs_f64();
    crate::util::dump_hashes("sim-cli-c13", &results.iter().map(|(st, _)| st.base_identity).collect::<Vec<_>>());
    let mut total = Stats::default();
    let mut violations = Vec::new();
    let mut tuples = std::collections::HashSet::new();
    for (st, v) in &results {
        total.worlds += st.worlds;
        total.spawns += st.spawns;
        total.fault_runs += st.fault_runs;
        total.io_calls += st.io_calls;
        crate::util::merge_counts(&mut total.fault_kinds_fired, &st.fault_kinds_fired);
        crate::util::merge_counts(&mut total.probes, &st.probes);
        tuples.extend(st.tuples.iter().copied());
        if let Some(v) = v {
            violations.push(v.clone());
        }
    }
    println!("sim-cli C13: {} worlds, {} spawns of the real binary ({} fault runs), {} violations, {:.1}s", total.worlds, total.spawns, total.fault_runs, violations.len(), wall);
    let (code, new_count, known_hit) = crate::util::report("C13", tier, root, &violations);
    let (reg_n, reg_failed) = crate::util::run_regressions("C13", replay);
    let code = if reg_failed > 0 { 1 } else { code };
    let new_count = new_count + reg_failed;
    let mut samples = Vec::new();
    for i in 0..2u64.min(worlds) {
        let w = gen_world(crate::rng::run_seed(root, "sim-cli-c13", i));
        samples.push(Json::obj(vec![("run", Json::Num(i as f64)), ("scenario", world_to_json(&w, &[]))]));
    }
    if tier == "thorough" {
        for (k, v) in &total.probes {
            if *v == 0 {
                println!("warning: probe {k} stayed at 0");
            }
        }
    }
    Evidence {
        property: "C13".into(),
        tier: tier.into(),
        seed: root,
        level: "exploration".into(),
        wall_s: wall,
        violations: new_count,
        coverage: vec![
            ("evaluations".into(), Json::Num(total.spawns as f64)),
            ("distinct_nontrivial".into(), Json::Num(tuples.len() as f64)),
            ("rule".into(), Json::str("seeded directory-tree worlds (importer dir, 0-3 -J dirs in random order plus missing/empty ones, sub-directory, module files duplicated across directories with a unique id per copy, spellings plain / ./ / sub/../ / absolute / through a symlinked directory / through a symlink to the file / ../J/, import + importstr + importbin of text and binary data, dead and hidden imports closing cycles, main given as relative / ./ / absolute / bare file name / -e / stdin, a module shared between --ext-code-file and import, planted missing / dangling / directory candidates); the real binary's output is compared with a resolution model whose exists/canonical/bytes primitives are asked of the real tree; then every open/read/realpath call of the recorded trace on a tree file is faulted in turn (up to a per-world cap); distinct = distinct (main kind, -J count, ext files, module count, spelling kinds | fault kind x demanded-or-not) tuples.")),
            ("samples".into(), Json::Arr(samples)),
            ("worlds".into(), Json::Num(total.worlds as f64)),
            ("fault_runs".into(), Json::Num(total.fault_runs as f64)),
            ("runs_per_hour".into(), Json::Num((total.spawns as f64 / wall.max(0.001) * 3600.0).round())),
            ("seeds".into(), Json::str(format!("root {root}; per-world seeds = splitmix64(root ^ fnv1a64(\"sim-cli-c13\") ^ i*phi) for i in 0..{worlds}"))),
            ("simulated_time".into(), Json::str(format!("none - the tool reads no clock; progress is counted in intercepted I/O calls ({})", total.io_calls))),
            ("fault_kinds_fired".into(), crate::util::counts_to_json(&total.fault_kinds_fired)),
            ("probes".into(), crate::util::counts_to_json(&total.probes)),
            ("components".into(), Json::obj(vec![
                ("real", Json::Arr(["the unmodified rsjsonnet binary built from /repo (hooks off)", "rsjsonnet-front Session (find_import, load_real_file, source_cache)", "Rust std fs", "kernel tmpfs incl. symlinks"].iter().map(|s| Json::str(*s)).collect())),
                ("stub", Json::Arr(["results of libc open/read/realpath calls on tree files when a plan rule fires (LD_PRELOAD shim)"].iter().map(|s| Json::str(*s)).collect())),
            ])),
            ("regression_scenarios_replayed".into(), Json::Num(reg_n as f64)),
            ("known_findings_hit".into(), Json::Arr(known_hit.iter().map(Json::str).collect())),
        ],
        assumptions: vec![
            "the model encodes only what the statement fixes (search order, right-most -J first, absolute bypass, identity across spellings, thisFile = a path the file was loaded by, lossy/exact content); path-resolution minutiae come from the real tree".into(),
            "a module's value (and the directory its own relative imports resolve against) is fixed by the path that loaded it first; the model takes 'first' in depth-first field order, which is how the tool forces values".into(),
            "stat-class faults accept 'treated as absent' or 'error'; a directory in place of a file with a later candidate is checked only for no-panic / exit status / load-once".into(),
        ],
    }
    .write();
    println!("C13 done: {} spawns, {} new violations, {:.1}s", total.spawns, new_count, wall);
    code
}

//! Minimisation of `sim-cli` violations (C12 / C13) before they are reported.
//!
//! A candidate world is accepted only if it fails with the SAME violation class.
//! * C12: the model is tied to the generated program (value V, mode, expectation), so the reductions are
//!   behaviour-preserving ones only - tree entries, argv units, environment entries and plan rules are dropped as long
//!   as the FAULT-FREE run of the reduced world is byte-identical (exit status, stdout, stderr, -o / -m files) to the
//!   fault-free run of the original world and the violation is still there.
//! * C13: the model is a function of (tree, module structure, argv), so reductions are structural - dependencies are
//!   dropped from modules (their text is regenerated), tree entries, -J options, unused --ext-code(-file) options,
//!   hidden / dead imports and padding are dropped; the model is re-predicted for every candidate.
//! Bounded: at most `MAX_CANDIDATES` candidate worlds or `MAX_SECS` seconds per violation.

use std::path::PathBuf;
use std::time::Instant;

use crate::c12;
use crate::c13::{self, C13World, DepKind, MainKind};
use crate::cliworld::{run_world, Entry, Rule, StdoutKind};
use crate::util::{ddmin, Violation};

const MAX_CANDIDATES: usize = 220;
const MAX_SECS: u64 = 75;

struct Budget {
    left: usize,
    start: Instant,
}

impl Budget {
    fn new() -> Budget {
        Budget { left: MAX_CANDIDATES, start: Instant::now() }
    }
    fn take(&mut self) -> bool {
        if self.left == 0 || self.start.elapsed().as_secs() >= MAX_SECS {
            self.left = 0;
            return false;
        }
        self.left -= 1;
        true
    }
}

const VALUE_OPTS: &[&str] = &[
    "-J", "--jpath", "-V", "--ext-str", "--ext-code", "--ext-str-file", "--ext-code-file", "-A", "--tla-str", "--tla-code", "--tla-str-file", "--tla-code-file", "-o", "--output-file", "-m", "--multi", "-s",
    "--max-stack", "-t", "--max-trace", "-e", "--exec",
];

/// argv split into units that can be dropped together: an option with its value, or a single word.
fn argv_units(argv: &[String]) -> Vec<Vec<String>> {
    let mut out = Vec::new();
    let mut i = 0;
    while i < argv.len() {
        if VALUE_OPTS.contains(&argv[i].as_str()) && i + 1 < argv.len() {
            out.push(vec![argv[i].clone(), argv[i + 1].clone()]);
            i += 2;
        } else {
            out.push(vec![argv[i].clone()]);
            i += 1;
        }
    }
    out
}

// ---------------------------------------------------------------------------------------------------------------
// C12

type C12Base = (Option<i32>, Vec<u8>, String, c12::Sinks);

fn c12_base(w: &c12::C12World) -> C12Base {
    let mut w0 = w.clone();
    w0.world.stdout = StdoutKind::File;
    let base = run_world(&w0.world, &[]);
    let sinks = c12::sinks_of(&w0, &base);
    (base.exit, base.stdout.clone(), base.stderr.clone(), sinks)
}

fn c12_fails(w: &c12::C12World, plan: &[Rule], sk: &StdoutKind, class: &str, orig: &C12Base) -> bool {
    if c12_base(w) != *orig {
        return false;
    }
    let mut w0 = w.clone();
    w0.world.stdout = StdoutKind::File;
    matches!(c12::check_world(&w0, plan, sk), (_, Some((_, c, _))) if c == class)
}

pub fn minimise_c12(v: &Violation) -> Violation {
    let Some((w, plan)) = c12::world_from_json(&v.scenario) else { return v.clone() };
    let sk = w.world.stdout.clone();
    let class = v.class.clone();
    let orig = c12_base(&w);
    if !c12_fails(&w, &plan, &sk, &class, &orig) {
        return v.clone();
    }
    let mut b = Budget::new();
    let mut cur = w.clone();
    let mut cur_plan = plan.clone();
    // plan rules
    if cur_plan.len() > 1 {
        let mut n = usize::MAX;
        cur_plan = ddmin(&cur_plan, &mut n, |cand| !cand.is_empty() && b.take() && c12_fails(&cur, cand, &sk, &class, &orig));
    }
    // tree entries
    {
        let mut n = usize::MAX;
        let tree = cur.world.tree.clone();
        let kept = ddmin(&tree, &mut n, |cand| {
            if !b.take() {
                return false;
            }
            let mut c = cur.clone();
            c.world.tree = cand.to_vec();
            c12_fails(&c, &cur_plan, &sk, &class, &orig)
        });
        cur.world.tree = kept;
    }
    // argv units
    {
        let mut n = usize::MAX;
        let units = argv_units(&cur.world.argv);
        let kept = ddmin(&units, &mut n, |cand| {
            if !b.take() {
                return false;
            }
            let mut c = cur.clone();
            c.world.argv = cand.iter().flatten().cloned().collect();
            c12_fails(&c, &cur_plan, &sk, &class, &orig)
        });
        cur.world.argv = kept.into_iter().flatten().collect();
    }
    // environment
    {
        let mut n = usize::MAX;
        let env = cur.world.env.clone();
        let kept = ddmin(&env, &mut n, |cand| {
            if !b.take() {
                return false;
            }
            let mut c = cur.clone();
            c.world.env = cand.to_vec();
            c12_fails(&c, &cur_plan, &sk, &class, &orig)
        });
        cur.world.env = kept;
    }
    let mut w0 = cur.clone();
    w0.world.stdout = StdoutKind::File;
    match c12::check_world(&w0, &cur_plan, &sk) {
        (out, Some((inv, c, msg))) if c == class => {
            let smaller = cur.world.tree.len() < w.world.tree.len() || cur.world.argv.len() < w.world.argv.len() || cur.world.env.len() < w.world.env.len() || cur_plan.len() < plan.len();
            let mut nv = c12::violation(&w0, &cur_plan, &sk, &inv, &c, &msg, v.run_index, &out, smaller);
            nv.detail = format!("{} [world minimised: {} -> {} tree entries, {} -> {} argv words, {} -> {} plan rules]", nv.detail, w.world.tree.len(), cur.world.tree.len(), w.world.argv.len(), cur.world.argv.len(), plan.len(), cur_plan.len());
            nv
        }
        _ => v.clone(),
    }
}

// ---------------------------------------------------------------------------------------------------------------
// C13

fn strip_variant(class: &str) -> &str {
    class.strip_prefix("extra-empty-J:").or_else(|| class.strip_prefix("permuted-J:")).unwrap_or(class)
}

fn c13_class(w: &C13World, plan: &[Rule]) -> Option<String> {
    let sc = c13::world_to_json(w, plan);
    match c13::replay(&sc) {
        Ok(Some(v)) => Some(v.class),
        _ => None,
    }
}

fn c13_fails(w: &C13World, plan: &[Rule], class: &str) -> bool {
    c13_class(w, plan).map(|c| strip_variant(&c) == class).unwrap_or(false)
}

/// (lazy import, dead import, trailing padding comment) of a generated module text
fn text_extras(text: &str) -> (Option<String>, Option<String>, Option<String>) {
    let mut lazy = None;
    let mut unused = None;
    let mut pad = None;
    for l in text.lines() {
        if let Some(r) = l.strip_prefix("  lazy:: import \"") {
            lazy = r.strip_suffix("\",").map(String::from);
        } else if let Some(r) = l.strip_prefix("  unused: local x = import \"") {
            unused = r.strip_suffix("\"; 0,").map(String::from);
        } else if l.starts_with("// ") {
            pad = Some(l.to_string());
        }
    }
    (lazy, unused, pad)
}

#[derive(Clone, Copy, PartialEq)]
enum Which<'a> {
    Main,
    Module(&'a str),
}

fn get_text(w: &C13World, which: Which) -> Option<String> {
    match which {
        Which::Module(p) => w.world.tree.iter().find(|(k, _)| k == p).and_then(|(_, e)| if let Entry::File(b) = e { String::from_utf8(b.clone()).ok() } else { None }),
        Which::Main => match &w.main_kind {
            MainKind::File(p) => {
                let real = if p == "main.jsonnet" { "main.jsonnet" } else { "app/main.jsonnet" };
                get_text(w, Which::Module(real))
            }
            MainKind::Exec => w.world.argv.iter().position(|a| a == "-e").and_then(|i| w.world.argv.get(i + 1).cloned()),
            MainKind::Stdin => w.world.stdin.as_ref().and_then(|b| String::from_utf8(b.clone()).ok()),
        },
    }
}

fn set_text(w: &mut C13World, which: Which, text: String) {
    match which {
        Which::Module(p) => {
            if let Some((_, e)) = w.world.tree.iter_mut().find(|(k, _)| k == p) {
                *e = Entry::File(text.into_bytes());
            }
        }
        Which::Main => match w.main_kind.clone() {
            MainKind::File(p) => {
                let real = if p == "main.jsonnet" { "main.jsonnet" } else { "app/main.jsonnet" };
                set_text(w, Which::Module(real), text)
            }
            MainKind::Exec => {
                if let Some(i) = w.world.argv.iter().position(|a| a == "-e") {
                    if i + 1 < w.world.argv.len() {
                        w.world.argv[i + 1] = text;
                    }
                }
            }
            MainKind::Stdin => w.world.stdin = Some(text.into_bytes()),
        },
    }
}

/// Rewrites one module (or main) with the deps for which `keep` holds and the chosen extras.
fn rewrite(w: &C13World, which: Which, keep: &dyn Fn(usize) -> bool, keep_lazy: bool, keep_unused: bool, keep_pad: bool) -> Option<C13World> {
    let text = get_text(w, which)?;
    if !text.starts_with("std.trace(\"EVAL:") {
        return None;
    }
    let (lazy, unused, pad) = text_extras(&text);
    let mut c = w.clone();
    let m = match which {
        Which::Main => &mut c.main,
        Which::Module(p) => c.modules.get_mut(p)?,
    };
    let mut deps: Vec<_> = m.deps.iter().enumerate().filter(|(i, _)| keep(*i)).map(|(_, d)| d.clone()).collect();
    let id = m.id.clone();
    let mut new_text = c13::module_text(&id, &mut deps, if keep_lazy { lazy.as_deref() } else { None }, if keep_unused { unused.as_deref() } else { None });
    if keep_pad {
        if let Some(p) = pad {
            new_text.push_str(&p);
            new_text.push('\n');
        }
    }
    m.deps = deps;
    set_text(&mut c, which, new_text);
    Some(c)
}

fn remove_argv_pair(argv: &mut Vec<String>, opts: &[&str], value_prefix: &str) -> bool {
    let mut i = 0;
    while i + 1 < argv.len() {
        if opts.contains(&argv[i].as_str()) && argv[i + 1].starts_with(value_prefix) {
            argv.drain(i..i + 2);
            return true;
        }
        i += 1;
    }
    false
}

pub fn minimise_c13(v: &Violation) -> Violation {
    let Some((w, plan)) = c13::world_from_json(&v.scenario) else { return v.clone() };
    let class = strip_variant(&v.class).to_string();
    if class == "nondeterministic-run" || !c13_fails(&w, &plan, &class) {
        return v.clone();
    }
    let mut b = Budget::new();
    let mut cur = w.clone();
    let mut cur_plan = plan.clone();
    if cur_plan.len() > 1 {
        let mut n = usize::MAX;
        cur_plan = ddmin(&cur_plan, &mut n, |cand| !cand.is_empty() && b.take() && c13_fails(&cur, cand, &class));
    }
    for _pass in 0..2 {
        let before = (cur.world.tree.len(), cur.main.deps.len() + cur.modules.values().map(|m| m.deps.len()).sum::<usize>());
        // dependencies, main first
        let mut names: Vec<Option<String>> = vec![None];
        names.extend(cur.modules.keys().cloned().map(Some));
        for name in names {
            let which = match &name {
                None => Which::Main,
                Some(p) => Which::Module(p.as_str()),
            };
            let ndeps = match which {
                Which::Main => cur.main.deps.len(),
                Which::Module(p) => cur.modules.get(p).map(|m| m.deps.len()).unwrap_or(0),
            };
            if get_text(&cur, which).is_none() {
                continue;
            }
            let idx: Vec<usize> = (0..ndeps).collect();
            let mut n = usize::MAX;
            let mut best: Option<C13World> = None;
            let kept = ddmin(&idx, &mut n, |cand| {
                if !b.take() {
                    return false;
                }
                match rewrite(&cur, which, &|i| cand.contains(&i), true, true, true) {
                    Some(c) if c13_fails(&c, &cur_plan, &class) => {
                        best = Some(c);
                        true
                    }
                    _ => false,
                }
            });
            if kept.len() < ndeps {
                if let Some(c) = best {
                    cur = c;
                }
            }
            // hidden / dead imports and padding
            for (kl, ku, kp) in [(false, true, true), (true, false, true), (true, true, false)] {
                if !b.take() {
                    break;
                }
                if let Some(c) = rewrite(&cur, which, &|_| true, kl, ku, kp) {
                    if get_text(&c, which) != get_text(&cur, which) && c13_fails(&c, &cur_plan, &class) {
                        cur = c;
                    }
                }
            }
        }
        // tree entries (the main file stays)
        {
            let main_real = match &cur.main_kind {
                MainKind::File(p) => Some(if p == "main.jsonnet" { "main.jsonnet".to_string() } else { "app/main.jsonnet".to_string() }),
                _ => None,
            };
            let tree = cur.world.tree.clone();
            let (fixed, free): (Vec<_>, Vec<_>) = tree.into_iter().partition(|(p, _)| Some(p) == main_real.as_ref());
            let mut n = usize::MAX;
            let kept = ddmin(&free, &mut n, |cand| {
                if !b.take() {
                    return false;
                }
                let mut c = cur.clone();
                c.world.tree = cand.iter().cloned().chain(fixed.iter().cloned()).collect();
                c13_fails(&c, &cur_plan, &class)
            });
            cur.world.tree = kept.into_iter().chain(fixed).collect();
            let present: Vec<String> = cur.world.tree.iter().map(|(p, _)| p.clone()).collect();
            cur.modules.retain(|p, _| present.contains(p));
        }
        // -J options
        let mut k = 0;
        while k < cur.jdirs.len() {
            if !b.take() {
                break;
            }
            let mut c = cur.clone();
            c.jdirs.remove(k);
            c.world.argv.drain(k * 2..k * 2 + 2);
            if c13_fails(&c, &cur_plan, &class) {
                cur = c;
            } else {
                k += 1;
            }
        }
        // --ext-code / --ext-code-file options no dependency refers to any more
        let used: Vec<String> = cur.main.deps.iter().chain(cur.modules.values().flat_map(|m| m.deps.iter())).filter_map(|d| if let DepKind::Ext(v) = &d.kind { Some(v.clone()) } else { None }).collect();
        for (var, _) in cur.ext_codes.clone() {
            if !used.contains(&var) && b.take() {
                let mut c = cur.clone();
                if remove_argv_pair(&mut c.world.argv, &["--ext-code"], &format!("{var}=")) {
                    c.ext_codes.retain(|(v, _)| *v != var);
                    if c13_fails(&c, &cur_plan, &class) {
                        cur = c;
                    }
                }
            }
        }
        for (var, _) in cur.ext_files.clone() {
            if !used.contains(&var) && b.take() {
                let mut c = cur.clone();
                if remove_argv_pair(&mut c.world.argv, &["--ext-code-file"], &format!("{var}=")) {
                    c.ext_files.retain(|(v, _)| *v != var);
                    if c13_fails(&c, &cur_plan, &class) {
                        cur = c;
                    }
                }
            }
        }
        let after = (cur.world.tree.len(), cur.main.deps.len() + cur.modules.values().map(|m| m.deps.len()).sum::<usize>());
        if after == before || b.left == 0 {
            break;
        }
    }
    // final verdict on the reduced world (fresh runs)
    let sc = c13::world_to_json(&cur, &cur_plan);
    match c13::replay(&sc) {
        Ok(Some(mut nv)) if strip_variant(&nv.class) == class => {
            let deps = |x: &C13World| x.main.deps.len() + x.modules.values().map(|m| m.deps.len()).sum::<usize>();
            nv.minimised = cur.world.tree.len() < w.world.tree.len() || deps(&cur) < deps(&w) || cur.world.argv.len() < w.world.argv.len();
            nv.class = v.class.clone();
            nv.run_index = v.run_index;
            nv.detail = format!("{} [world minimised: {} -> {} tree entries, {} -> {} import sites, {} -> {} -J options]", nv.detail, w.world.tree.len(), cur.world.tree.len(), deps(&w), deps(&cur), w.jdirs.len(), cur.jdirs.len());
            nv
        }
        _ => v.clone(),
    }
}

#[allow(dead_code)]
fn _unused(_: PathBuf) {}

//! In-process harness around the real `Program`: the simulator is the
//! embedder (Callbacks), owns the collection schedule (hook H1) and renders
//! request outcomes in a form that can be compared across program states.

use std::cell::RefCell;
use std::collections::{BTreeMap, BTreeSet, HashMap};
use std::panic::{catch_unwind, AssertUnwindSafe};
use std::rc::Rc;
use std::sync::Arc;

use rsjsonnet_lang::arena::Arena;
use rsjsonnet_lang::interner::InternedStr;
use rsjsonnet_lang::program::verif::{GcAction, GcDecision, GcPoint};
use rsjsonnet_lang::program::{
    Callbacks, EvalError, EvalStackTraceItem, ImportError, LoadError, NativeError, Program, Thunk,
    Value,
};
use rsjsonnet_lang::span::{SourceId, SpanId};

use crate::json::Json;
use crate::rng::Rng;

// ---------------------------------------------------------------------------
// world

#[derive(Clone, Debug, Default)]
pub struct World {
    /// virtual file table: sources and import targets by (normalised) path
    pub files: Arc<BTreeMap<String, Vec<u8>>>,
    /// external variables: (name, is_code, text)
    pub ext: Vec<(String, bool, String)>,
}

impl World {
    pub fn to_json(&self, only: Option<&BTreeSet<String>>) -> Vec<(String, Json)> {
        let files = Json::Obj(
            self.files
                .iter()
                .filter(|(k, _)| only.map(|o| o.contains(*k)).unwrap_or(true))
                .map(|(k, v)| match std::str::from_utf8(v) {
                    Ok(s) => (k.clone(), Json::str(s)),
                    Err(_) => (k.clone(), Json::obj(vec![("b64", Json::str(crate::util::b64_encode(v)))])),
                })
                .collect(),
        );
        let ext = Json::Arr(
            self.ext
                .iter()
                .map(|(n, c, t)| Json::obj(vec![("name", Json::str(n)), ("kind", Json::str(if *c { "code" } else { "str" })), ("text", Json::str(t))]))
                .collect(),
        );
        vec![("files".into(), files), ("ext".into(), ext)]
    }

    pub fn from_json(j: &Json) -> Option<World> {
        let mut w = World::default();
        let mut files = BTreeMap::new();
        for (k, v) in j.get("files")?.as_obj()? {
            let data = match v {
                Json::Str(s) => s.as_bytes().to_vec(),
                other => crate::util::b64_decode(other.get("b64")?.as_str()?)?,
            };
            files.insert(k.clone(), data);
        }
        w.files = Arc::new(files);
        if let Some(ext) = j.get("ext").and_then(|e| e.as_arr()) {
            for e in ext {
                w.ext.push((e.get("name")?.as_str()?.to_string(), e.get("kind")?.as_str()? == "code", e.get("text")?.as_str()?.to_string()));
            }
        }
        Some(w)
    }
}

/// Lexical normalisation of a '/'-separated path.
pub fn norm_path(p: &str) -> String {
    let mut out: Vec<&str> = Vec::new();
    for c in p.split('/') {
        match c {
            "" | "." => {}
            ".." => {
                if matches!(out.last(), Some(&l) if l != "..") {
                    out.pop();
                } else {
                    out.push("..");
                }
            }
            c => out.push(c),
        }
    }
    out.join("/")
}

// ---------------------------------------------------------------------------
// outcomes

#[derive(Clone, Debug, PartialEq)]
pub enum Out {
    Ok(String),
    LoadErr(String),
    Err { kind: String, payload: String, trace: Vec<String> },
    Panic(String),
}

impl Out {
    pub fn kind_name(&self) -> &str {
        match self {
            Out::Ok(_) => "ok",
            Out::LoadErr(_) => "load_err",
            Out::Err { kind, .. } => kind,
            Out::Panic(_) => "panic",
        }
    }
    pub fn is_panic(&self) -> bool {
        matches!(self, Out::Panic(_))
    }
    /// the run was abandoned by the harness (step budget), not by the code under test
    pub fn is_budget(&self) -> bool {
        matches!(self, Out::Panic(m) if m.starts_with(STEP_BUDGET_MARKER))
    }
    pub fn to_json(&self) -> Json {
        match self {
            Out::Ok(s) => Json::obj(vec![("ok", Json::str(s))]),
            Out::LoadErr(s) => Json::obj(vec![("load_err", Json::str(s))]),
            Out::Err { kind, payload, trace } => Json::obj(vec![(
                "err",
                Json::obj(vec![("kind", Json::str(kind)), ("payload", Json::str(payload)), ("trace", Json::Arr(trace.iter().map(Json::str).collect()))]),
            )]),
            Out::Panic(s) => Json::obj(vec![("panic", Json::str(s))]),
        }
    }
    pub fn short(&self) -> String {
        match self {
            Out::Ok(s) => format!("ok:{}", s.chars().take(60).collect::<String>()),
            Out::LoadErr(s) => format!("load_err:{}", s.chars().take(80).collect::<String>()),
            Out::Err { kind, payload, trace } => format!("err:{kind}:{}:trace{}", payload.chars().take(100).collect::<String>(), trace.len()),
            Out::Panic(s) => format!("panic:{}", s.chars().take(100).collect::<String>()),
        }
    }
}

// ---------------------------------------------------------------------------
// callbacks (the simulator as embedder)

#[derive(Clone, Debug)]
pub enum CbGc {
    Never,
    /// collect inside a callback with probability n/1000
    Bernoulli(u64),
    Explicit(BTreeSet<u64>),
}

pub struct SimCallbacks<'p> {
    pub files: Arc<BTreeMap<String, Vec<u8>>>,
    pub touched: BTreeSet<String>,
    pub import_cache: HashMap<String, Thunk<'p>>,
    pub src_names: HashMap<SourceId, String>,
    /// (end offset, name) per span context in creation order (context 0 = stdlib)
    pub ctx_ends: Vec<(u64, String)>,
    pub traces: Vec<String>,
    pub cb_log: Vec<String>,
    pub fail_imports: BTreeSet<String>,
    pub fail_natives: BTreeSet<String>,
    pub cb_count: u64,
    pub cb_gc: CbGc,
    pub cb_gc_rng: Rng,
    pub cb_gc_done: Vec<u64>,
    pub nested: u32,
    pub nested_evals: u64,
    pub nested_failures_swallowed: u64,
    pub imports_served_from_cache: u64,
    pub imports_failed_injected: u64,
    pub natives_failed_injected: u64,
    pub cb_kinds: BTreeMap<String, u64>,
    pub cb_gc_kinds: BTreeMap<String, u64>,
}

impl<'p> SimCallbacks<'p> {
    pub fn new(files: Arc<BTreeMap<String, Vec<u8>>>) -> Self {
        SimCallbacks {
            files,
            touched: BTreeSet::new(),
            import_cache: HashMap::new(),
            src_names: HashMap::new(),
            ctx_ends: Vec::new(),
            traces: Vec::new(),
            cb_log: Vec::new(),
            fail_imports: BTreeSet::new(),
            fail_natives: BTreeSet::new(),
            cb_count: 0,
            cb_gc: CbGc::Never,
            cb_gc_rng: Rng::from_seed(0),
            cb_gc_done: Vec::new(),
            nested: 0,
            nested_evals: 0,
            nested_failures_swallowed: 0,
            imports_served_from_cache: 0,
            imports_failed_injected: 0,
            natives_failed_injected: 0,
            cb_kinds: BTreeMap::new(),
            cb_gc_kinds: BTreeMap::new(),
        }
    }

    fn register_source(&mut self, id: SourceId, name: &str, len: usize) {
        let prev = self.ctx_ends.last().map(|e| e.0).unwrap_or(0);
        self.ctx_ends.push((prev + len as u64 + 1, name.to_string()));
        self.src_names.insert(id, name.to_string());
    }

    /// Loads a source of the file table into the program.
    pub fn load(&mut self, program: &mut Program<'p>, name: &str) -> Result<Thunk<'p>, Out> {
        let files = self.files.clone();
        self.touched.insert(name.to_string());
        let Some(data) = files.get(name) else {
            return Err(Out::LoadErr(format!("no such virtual file {name:?}")));
        };
        self.load_data(program, name, data)
    }

    pub fn load_data(&mut self, program: &mut Program<'p>, name: &str, data: &[u8]) -> Result<Thunk<'p>, Out> {
        let (span_ctx, src_id) = program.span_manager_mut().insert_source_context(data.len());
        self.register_source(src_id, name, data.len());
        match program.load_source(span_ctx, data, true, name) {
            Ok(t) => Ok(t),
            Err(e) => Err(Out::LoadErr(self.render_load_error(&e))),
        }
    }

    fn resolve(&self, program: &Program<'p>, from: SpanId, path: &str) -> Option<String> {
        let (ctx, _, _) = program.span_manager().get_span(from);
        let rsjsonnet_lang::span::SpanContext::Source(src) = *program.span_manager().get_context(ctx);
        let from_name = self.src_names.get(&src).cloned().unwrap_or_default();
        let dir = match from_name.rfind('/') {
            Some(i) if !from_name.starts_with('<') => &from_name[..i],
            _ => "",
        };
        let c1 = norm_path(&format!("{dir}/{path}"));
        if self.files.contains_key(&c1) {
            return Some(c1);
        }
        let c2 = norm_path(path);
        if self.files.contains_key(&c2) {
            return Some(c2);
        }
        None
    }

    fn maybe_cb_gc(&mut self, program: &mut Program<'p>, kind: &str) {
        let ord = self.cb_count;
        self.cb_count += 1;
        *self.cb_kinds.entry(kind.to_string()).or_insert(0) += 1;
        let go = match &self.cb_gc {
            CbGc::Never => false,
            CbGc::Bernoulli(n) => self.cb_gc_rng.below(1000) < *n,
            CbGc::Explicit(set) => set.contains(&ord),
        };
        if go {
            program.gc();
            self.cb_gc_done.push(ord);
            *self.cb_gc_kinds.entry(kind.to_string()).or_insert(0) += 1;
        }
    }

    /// Replaces `Inline { offset: N, len: L }` (the Debug form of a span) by
    /// `<source name>@<start>+<len>` using the registered contexts.
    pub fn resolve_debug_spans(&self, s: &str) -> String {
        let pat = "Inline { offset: ";
        let mut out = String::new();
        let mut rest = s;
        while let Some(i) = rest.find(pat) {
            out.push_str(&rest[..i]);
            let after = &rest[i + pat.len()..];
            let parsed = (|| {
                let j = after.find(", len: ")?;
                let off: u64 = after[..j].parse().ok()?;
                let after2 = &after[j + 7..];
                let k = after2.find(" }")?;
                let len: u64 = after2[..k].parse().ok()?;
                Some((off, len, j + 7 + k + 2))
            })();
            match parsed {
                Some((off, len, consumed)) => {
                    let mut base = 0u64;
                    let mut name = "?";
                    for (end, n) in &self.ctx_ends {
                        if off < *end {
                            name = n;
                            break;
                        }
                        base = *end;
                    }
                    out.push_str(&format!("{name}@{}+{len}", off - base));
                    rest = &after[consumed..];
                }
                None => {
                    out.push_str(pat);
                    rest = after;
                }
            }
        }
        out.push_str(rest);
        out
    }

    pub fn render_load_error(&self, e: &LoadError) -> String {
        self.resolve_debug_spans(&format!("{e:?}"))
    }

    pub fn render_span(&self, program: &Program<'p>, span: SpanId) -> String {
        let (ctx, start, end) = program.span_manager().get_span(span);
        let rsjsonnet_lang::span::SpanContext::Source(src) = *program.span_manager().get_context(ctx);
        let name = self.src_names.get(&src).map(String::as_str).unwrap_or("?");
        format!("{name}@{start}+{}", end - start)
    }

    pub fn render_trace_item(&self, program: &Program<'p>, item: &EvalStackTraceItem) -> String {
        let sp = |s: &SpanId| self.render_span(program, *s);
        let osp = |s: &Option<SpanId>| s.as_ref().map(|s| self.render_span(program, *s)).unwrap_or_else(|| "-".into());
        match item {
            EvalStackTraceItem::Expr { span } => format!("Expr {}", sp(span)),
            EvalStackTraceItem::Call { span, name } => format!("Call {} {:?}", osp(span), name),
            EvalStackTraceItem::Variable { span, name } => format!("Variable {} {name}", sp(span)),
            EvalStackTraceItem::ArrayItem { span, index } => format!("ArrayItem {} {index}", osp(span)),
            EvalStackTraceItem::ObjectField { span, name } => format!("ObjectField {} {name:?}", osp(span)),
            EvalStackTraceItem::CompareArrayItem { index } => format!("CompareArrayItem {index}"),
            EvalStackTraceItem::CompareObjectField { name } => format!("CompareObjectField {name:?}"),
            EvalStackTraceItem::ManifestArrayItem { index } => format!("ManifestArrayItem {index}"),
            EvalStackTraceItem::ManifestObjectField { name } => format!("ManifestObjectField {name:?}"),
            EvalStackTraceItem::Import { span } => format!("Import {}", sp(span)),
        }
    }

    pub fn render_eval_error(&self, program: &Program<'p>, e: &EvalError) -> Out {
        let dbg = format!("{:?}", e.kind);
        let kind: String = dbg.chars().take_while(|c| c.is_ascii_alphanumeric() || *c == '_').collect();
        let payload = self.resolve_debug_spans(&dbg);
        let trace = e.stack_trace.iter().map(|i| self.render_trace_item(program, i)).collect();
        Out::Err { kind, payload, trace }
    }
}

impl<'p> Callbacks<'p> for SimCallbacks<'p> {
    fn import(&mut self, program: &mut Program<'p>, from: SpanId, path: &str) -> Result<Thunk<'p>, ImportError> {
        self.maybe_cb_gc(program, "import");
        let Some(full) = self.resolve(program, from, path) else {
            self.cb_log.push(format!("import {path} -> not found"));
            return Err(ImportError);
        };
        if let Some(t) = self.import_cache.get(&full) {
            self.imports_served_from_cache += 1;
            self.cb_log.push(format!("import {full} -> cached"));
            return Ok(t.clone());
        }
        if self.fail_imports.contains(&full) {
            self.imports_failed_injected += 1;
            self.cb_log.push(format!("import {full} -> injected failure"));
            return Err(ImportError);
        }
        match self.load(program, &full) {
            Ok(t) => {
                self.import_cache.insert(full.clone(), t.clone());
                self.cb_log.push(format!("import {full} -> loaded"));
                Ok(t)
            }
            Err(_) => {
                self.cb_log.push(format!("import {full} -> load error"));
                Err(ImportError)
            }
        }
    }

    fn import_str(&mut self, program: &mut Program<'p>, from: SpanId, path: &str) -> Result<String, ImportError> {
        self.maybe_cb_gc(program, "importstr");
        let Some(full) = self.resolve(program, from, path) else {
            self.cb_log.push(format!("importstr {path} -> not found"));
            return Err(ImportError);
        };
        if self.fail_imports.contains(&full) {
            self.imports_failed_injected += 1;
            self.cb_log.push(format!("importstr {full} -> injected failure"));
            return Err(ImportError);
        }
        self.touched.insert(full.clone());
        self.cb_log.push(format!("importstr {full}"));
        Ok(String::from_utf8_lossy(&self.files[&full]).into_owned())
    }

    fn import_bin(&mut self, program: &mut Program<'p>, from: SpanId, path: &str) -> Result<Vec<u8>, ImportError> {
        self.maybe_cb_gc(program, "importbin");
        let Some(full) = self.resolve(program, from, path) else {
            self.cb_log.push(format!("importbin {path} -> not found"));
            return Err(ImportError);
        };
        if self.fail_imports.contains(&full) {
            self.imports_failed_injected += 1;
            self.cb_log.push(format!("importbin {full} -> injected failure"));
            return Err(ImportError);
        }
        self.touched.insert(full.clone());
        self.cb_log.push(format!("importbin {full}"));
        Ok(self.files[&full].clone())
    }

    fn trace(&mut self, program: &mut Program<'p>, message: &str, stack: &[EvalStackTraceItem]) {
        self.maybe_cb_gc(program, "trace");
        let top = stack.last().map(|i| self.render_trace_item(program, i)).unwrap_or_default();
        self.traces.push(format!("{message} [{} frames; {top}]", stack.len()));
    }

    fn native_call(&mut self, program: &mut Program<'p>, name: InternedStr<'p>, args: &[Value<'p>]) -> Result<Value<'p>, NativeError> {
        let fname = name.value();
        self.maybe_cb_gc(program, "native");
        self.cb_log.push(format!("native {fname}/{}", args.len()));
        if self.fail_natives.contains(fname) {
            self.natives_failed_injected += 1;
            return Err(NativeError);
        }
        match fname {
            "fail" => Err(NativeError),
            "gcNow" => {
                program.gc();
                *self.cb_gc_kinds.entry("native-gcNow".into()).or_insert(0) += 1;
                Ok(args[0].clone())
            }
            "evalOther" => {
                // re-entrant evaluation on the same program while the outer
                // evaluator's stacks are live
                if self.nested >= 2 || !self.files.contains_key("other.jsonnet") {
                    return Ok(args[0].clone());
                }
                let thunk = match self.import_cache.get("other.jsonnet") {
                    Some(t) => t.clone(),
                    None => match self.load(program, "other.jsonnet") {
                        Ok(t) => {
                            self.import_cache.insert("other.jsonnet".into(), t.clone());
                            t
                        }
                        Err(_) => return Err(NativeError),
                    },
                };
                self.nested += 1;
                self.nested_evals += 1;
                let r = program.eval_value(&thunk, self);
                self.nested -= 1;
                match r {
                    Ok(v) => {
                        let arr = program.make_array(&[args[0].clone(), v]);
                        Ok(arr)
                    }
                    Err(_) => Err(NativeError),
                }
            }
            // refuses everything but positive numbers and `true`
            "picky" => match (args[0].as_number(), args[0].as_bool()) {
                (Some(n), _) if n > 0.0 => Ok(args[0].clone()),
                (_, Some(true)) => Ok(args[0].clone()),
                _ => Err(NativeError),
            },
            "tryOther" => {
                // a nested evaluation on the same program whose FAILURE the embedder swallows: the outer evaluation
                // carries on over whatever the aborted inner one left behind (thunks in progress, pending object
                // asserts, evaluator stacks)
                if self.nested >= 2 {
                    return Ok(args[0].clone());
                }
                let key = if self.files.contains_key("other.jsonnet") { "other.jsonnet" } else { "<tryfail>" };
                let thunk = match self.import_cache.get(key) {
                    Some(t) => t.clone(),
                    None => {
                        let loaded = if key == "<tryfail>" { self.load_data(program, key, TRYFAIL_SRC.as_bytes()) } else { self.load(program, key) };
                        match loaded {
                            Ok(t) => {
                                self.import_cache.insert(key.into(), t.clone());
                                t
                            }
                            Err(_) => return Ok(args[0].clone()),
                        }
                    }
                };
                self.nested += 1;
                self.nested_evals += 1;
                let r = program.eval_value(&thunk, self);
                self.nested -= 1;
                if r.is_err() {
                    self.nested_failures_swallowed += 1;
                }
                Ok(args[0].clone())
            }
            _ => Ok(args[0].clone()),
        }
    }
}

/// Evaluated by the `tryOther` native when the world has no `other.jsonnet`: allocates, leaves thunks in progress and
/// object asserts pending, then fails during the deep evaluation of its last element.
pub const TRYFAIL_SRC: &str = "local o = { assert self.n > 0 : \"n\", n: 3, xs: [self.n, self.n + 1], deep: { v: std.map(function(x) x * 2, o.xs) } };\n[o.deep.v, std.foldl(function(a, b) a + b, o.xs, 0), { assert o.n == 3, w: o.xs[5] }]";

/// Renders a value through `Value::kind()` (panics with "thunk not evaluated" if it is not deep).
pub fn walk_value(v: &Value<'_>, depth: u32) -> String {
    use rsjsonnet_lang::program::ValueKind;
    if depth > 200 {
        return "…".into();
    }
    match v.kind() {
        ValueKind::Null => "null".into(),
        ValueKind::Bool(b) => b.to_string(),
        ValueKind::Number(n) => format!("{n}"),
        ValueKind::String(s) => format!("{s:?}"),
        ValueKind::Array(a) => format!("[{}]", a.iter().map(|x| walk_value(x, depth + 1)).collect::<Vec<_>>().join(",")),
        ValueKind::Object(o) => format!("{{{}}}", o.iter().map(|(k, x)| format!("{:?}:{}", k.value(), walk_value(x, depth + 1))).collect::<Vec<_>>().join(",")),
        ValueKind::Function => "<function>".into(),
    }
}

pub const NATIVES: &[&str] = &["id", "fail", "gcNow", "evalOther", "tryOther", "picky"];

// ---------------------------------------------------------------------------
// schedule (who owns "collect now?")

#[derive(Clone, Debug, PartialEq)]
pub enum SchedMode {
    Never,
    /// shipped heuristic decides (decider answers `Heuristic`)
    Heuristic,
    Every,
    Period(u64),
    /// probability n/1000 per step
    Bernoulli(u64),
    Burst { start: u64, len: u64 },
    /// collect (p = 3/4) on steps where the heap grew since the previous step
    AfterGrowth,
    Explicit(BTreeSet<u64>),
}

#[derive(Clone, Debug, PartialEq)]
pub enum AuditMode {
    None,
    AtCollect,
    /// at collections and at a 1/16 seeded sample of the other steps
    Sample,
    All,
}

#[derive(Default, Clone, Debug)]
pub struct SchedStats {
    pub steps: u64,
    pub collections: u64,
    pub collections_freeing: u64,
    pub collections_freeing_mid_eval: u64,
    pub objects_freed: u64,
    pub with_object_stack: u64,
    pub with_array_stack: u64,
    pub with_comp_spec_stack: u64,
    pub with_byte_array_stack: u64,
    pub with_cmp_ord_stack: u64,
    pub with_string_stack: u64,
    pub max_trace_len_at_collection: u64,
    pub max_trace_len: u64,
    pub state_kinds_seen: BTreeSet<u64>,
    pub state_kinds_collected_after: BTreeSet<u64>,
    pub audits_requested: u64,
}

pub struct Sched {
    pub mode: SchedMode,
    pub audit: AuditMode,
    pub rng: Rng,
    pub base: u64,
    /// relative ordinals at which Collect was answered
    pub collected: Vec<u64>,
    pub last_objects: usize,
    pub pending_before: Option<(usize, bool)>,
    pub stats: SchedStats,
    pub track_kinds: bool,
    /// hard bound on evaluator steps under this schedule: beyond it the run is abandoned (the decider panics with a
    /// marker, the harness catches it and discards the run). Some library functions recurse without consuming frames
    /// (e.g. std.prune on an infinitely deep lazy object) and would otherwise run until memory is exhausted.
    pub step_limit: u64,
    /// collections this schedule may still order (a count, so deterministic): bounds the cost of dense schedules over
    /// long evaluations; once used up the schedule answers Skip
    pub max_collections: u64,
}

pub const STEP_BUDGET_MARKER: &str = "harness: step budget exceeded";

impl Sched {
    pub fn new(mode: SchedMode, audit: AuditMode, rng: Rng) -> Self {
        Sched { mode, audit, rng, base: 0, collected: Vec::new(), last_objects: 0, pending_before: None, stats: SchedStats::default(), track_kinds: true, step_limit: 250_000, max_collections: u64::MAX }
    }

    pub fn decide(&mut self, pt: &GcPoint) -> GcDecision {
        let rel = pt.ordinal - self.base;
        self.stats.steps += 1;
        if self.stats.steps > self.step_limit {
            panic!("{STEP_BUDGET_MARKER}");
        }
        if let Some((before, mid)) = self.pending_before.take() {
            // the previous step collected: objs_after_last_gc is the count right after it
            let freed = before.saturating_sub(pt.objs_after_last_gc);
            if freed > 0 {
                self.stats.collections_freeing += 1;
                self.stats.objects_freed += freed as u64;
                if mid {
                    self.stats.collections_freeing_mid_eval += 1;
                }
            }
        }
        if self.track_kinds && pt.state_kind != 0 {
            self.stats.state_kinds_seen.insert(pt.state_kind);
        }
        self.stats.max_trace_len = self.stats.max_trace_len.max(pt.trace_len as u64);
        let grew = pt.num_objects > self.last_objects;
        self.last_objects = pt.num_objects;
        let collect = match &self.mode {
            SchedMode::Never => false,
            SchedMode::Heuristic => {
                return GcDecision { action: GcAction::Heuristic, audit: false };
            }
            SchedMode::Every => true,
            SchedMode::Period(k) => rel % *k == *k - 1,
            SchedMode::Bernoulli(n) => self.rng.below(1000) < *n,
            SchedMode::Burst { start, len } => rel >= *start && rel < *start + *len,
            SchedMode::AfterGrowth => grew && self.rng.below(4) < 3,
            SchedMode::Explicit(set) => set.contains(&rel),
        };
        let collect = collect && self.stats.collections < self.max_collections;
        let audit = match self.audit {
            AuditMode::None => false,
            AuditMode::AtCollect => collect,
            AuditMode::Sample => collect || self.rng.below(16) == 0,
            AuditMode::All => true,
        };
        if audit {
            self.stats.audits_requested += 1;
        }
        if collect {
            self.collected.push(rel);
            self.stats.collections += 1;
            let mid = pt.stacks[0] > 0;
            self.pending_before = Some((pt.num_objects, mid));
            let s = &pt.stacks;
            if s[5] > 0 { self.stats.with_object_stack += 1; }
            if s[4] > 0 { self.stats.with_array_stack += 1; }
            if s[6] > 0 { self.stats.with_comp_spec_stack += 1; }
            if s[8] > 0 { self.stats.with_byte_array_stack += 1; }
            if s[7] > 0 { self.stats.with_cmp_ord_stack += 1; }
            if s[3] > 0 { self.stats.with_string_stack += 1; }
            self.stats.max_trace_len_at_collection = self.stats.max_trace_len_at_collection.max(pt.trace_len as u64);
            if pt.state_kind != 0 {
                self.stats.state_kinds_collected_after.insert(pt.state_kind);
            }
        }
        GcDecision { action: if collect { GcAction::Collect } else { GcAction::Skip }, audit }
    }
}

pub fn sched_mode_name(m: &SchedMode) -> String {
    match m {
        SchedMode::Never => "never".into(),
        SchedMode::Heuristic => "heuristic".into(),
        SchedMode::Every => "every".into(),
        SchedMode::Period(k) => format!("period:{k}"),
        SchedMode::Bernoulli(n) => format!("bernoulli:{n}/1000"),
        SchedMode::Burst { .. } => "burst".into(),
        SchedMode::AfterGrowth => "after-growth".into(),
        SchedMode::Explicit(_) => "explicit".into(),
    }
}

// ---------------------------------------------------------------------------
// execution context

pub struct Ctx<'p> {
    pub program: Program<'p>,
    pub cb: SimCallbacks<'p>,
    pub sched: Option<Rc<RefCell<Sched>>>,
    pub ext_loaded: Vec<String>,
}

impl<'p> Ctx<'p> {
    pub fn new(arena: &'p Arena, world: &World) -> Self {
        let program = Program::new(arena);
        let mut cb = SimCallbacks::new(world.files.clone());
        let (std_id, std_data) = program.get_stdlib_source();
        let n = std_data.len();
        cb.register_source(std_id, "<stdlib>", n);
        let mut this = Ctx { program, cb, sched: None, ext_loaded: Vec::new() };
        for name in NATIVES {
            let n = this.program.intern_str(name);
            let x = this.program.intern_str("x");
            this.program.register_native_func(n, &[x]);
        }
        for (name, is_code, text) in &world.ext {
            this.add_ext(name, *is_code, text);
        }
        this
    }

    /// `Program::add_ext_var` (a name can be set only once; a second request for it is ignored). Returns whether
    /// the variable was added.
    pub fn add_ext(&mut self, name: &str, is_code: bool, text: &str) -> bool {
        if self.ext_loaded.iter().any(|n| n == name) {
            return false;
        }
        let iname = self.program.intern_str(name);
        if is_code {
            let vname = format!("<ext:{name}>");
            match self.cb.load_data(&mut self.program, &vname, text.as_bytes()) {
                Ok(t) => self.program.add_ext_var(iname, &t),
                Err(_) => return false,
            }
        } else {
            let t = self.program.value_to_thunk(&Value::string(text));
            self.program.add_ext_var(iname, &t);
        }
        self.ext_loaded.push(name.to_string());
        true
    }

    /// Installs a schedule; ordinals are counted from this point.
    pub fn install_sched(&mut self, mut sched: Sched) -> Rc<RefCell<Sched>> {
        sched.base = self.program.verif_steps();
        sched.last_objects = self.program.verif_num_objects();
        let rc = Rc::new(RefCell::new(sched));
        let rc2 = rc.clone();
        self.program.verif_set_gc_decider(Some(Box::new(move |pt| rc2.borrow_mut().decide(pt))));
        self.sched = Some(rc.clone());
        rc
    }

    pub fn remove_sched(&mut self) {
        self.program.verif_set_gc_decider(None);
        self.sched = None;
    }

    fn caught<T>(&mut self, f: impl FnOnce(&mut Self) -> T) -> Result<T, Out> {
        match catch_unwind(AssertUnwindSafe(|| f(self))) {
            Ok(t) => Ok(t),
            Err(p) => {
                // a panic may have happened while the schedule was borrowed; never reuse it
                let msg = crate::util::panic_message(&p);
                Err(Out::Panic(format!("{msg} @ {}", crate::util::last_panic_loc())))
            }
        }
    }

    pub fn load(&mut self, name: &str) -> Result<Thunk<'p>, Out> {
        match self.caught(|c| c.cb.load(&mut c.program, name)) {
            Ok(r) => r,
            Err(p) => Err(p),
        }
    }

    pub fn eval(&mut self, thunk: &Thunk<'p>) -> Result<Value<'p>, Out> {
        match self.caught(|c| match c.program.eval_value(thunk, &mut c.cb) {
            Ok(v) => Ok(v),
            Err(e) => Err(c.cb.render_eval_error(&c.program, &e)),
        }) {
            Ok(r) => r,
            Err(p) => Err(p),
        }
    }

    pub fn call(&mut self, func: &Thunk<'p>, pos: &[Thunk<'p>], named: &[(String, Thunk<'p>)]) -> Result<Value<'p>, Out> {
        match self.caught(|c| {
            let named: Vec<(InternedStr<'p>, Thunk<'p>)> = named.iter().map(|(n, t)| (c.program.intern_str(n), t.clone())).collect();
            match c.program.eval_call(func, pos, &named, &mut c.cb) {
                Ok(v) => Ok(v),
                Err(e) => Err(c.cb.render_eval_error(&c.program, &e)),
            }
        }) {
            Ok(r) => r,
            Err(p) => Err(p),
        }
    }

    pub fn manifest(&mut self, value: &Value<'p>, multiline: bool) -> Out {
        match self.caught(|c| match c.program.manifest_json(value, multiline) {
            Ok(s) => Out::Ok(s),
            Err(e) => c.cb.render_eval_error(&c.program, &e),
        }) {
            Ok(r) => r,
            Err(p) => p,
        }
    }

    /// eval + manifest: the comparable outcome of an evaluation request. The returned value is also walked
    /// through the embedder API (`Value::kind`), which requires it to be deeply evaluated.
    pub fn eval_out(&mut self, thunk: &Thunk<'p>) -> (Out, Option<Value<'p>>) {
        match self.eval(thunk) {
            Ok(v) => (self.manifest_and_walk(&v), Some(v)),
            Err(o) => (o, None),
        }
    }

    pub fn manifest_and_walk(&mut self, v: &Value<'p>) -> Out {
        let walked = match self.caught(|_| walk_value(v, 0)) {
            Ok(w) => w,
            Err(p) => return p,
        };
        match self.manifest(v, false) {
            Out::Ok(s) => Out::Ok(format!("{s} #kind-walk:{walked}")),
            other => other,
        }
    }

    pub fn call_out(&mut self, func: &Thunk<'p>, pos: &[Thunk<'p>], named: &[(String, Thunk<'p>)]) -> (Out, Option<Value<'p>>) {
        match self.call(func, pos, named) {
            Ok(v) => (self.manifest_and_walk(&v), Some(v)),
            Err(o) => (o, None),
        }
    }

    pub fn gc(&mut self) -> Result<(usize, usize), Out> {
        self.caught(|c| {
            let before = c.program.verif_num_objects();
            c.program.gc();
            (before, c.program.verif_num_objects())
        })
    }

    pub fn audit(&mut self) -> Result<(usize, usize, usize, usize), Out> {
        self.caught(|c| c.program.verif_audit())
    }
}

//! Tiny JSON reader/writer (oracle side; independent of rsjsonnet's).

use std::fmt::Write as _;

#[derive(Clone, Debug, PartialEq)]
pub enum Json {
    Null,
    Bool(bool),
    Num(f64),
    Str(String),
    Arr(Vec<Json>),
    Obj(Vec<(String, Json)>),
}

impl Json {
    pub fn obj(fields: Vec<(&str, Json)>) -> Json {
        Json::Obj(fields.into_iter().map(|(k, v)| (k.to_string(), v)).collect())
    }
    pub fn str(s: impl Into<String>) -> Json {
        Json::Str(s.into())
    }
    pub fn int(n: impl TryInto<i64>) -> Json {
        Json::Num(n.try_into().ok().expect("int out of range") as f64)
    }
    pub fn get(&self, key: &str) -> Option<&Json> {
        match self {
            Json::Obj(f) => f.iter().find(|(k, _)| k == key).map(|(_, v)| v),
            _ => None,
        }
    }
    pub fn as_str(&self) -> Option<&str> {
        match self {
            Json::Str(s) => Some(s),
            _ => None,
        }
    }
    pub fn as_f64(&self) -> Option<f64> {
        match self {
            Json::Num(n) => Some(*n),
            _ => None,
        }
    }
    pub fn as_u64(&self) -> Option<u64> {
        self.as_f64().map(|n| n as u64)
    }
    pub fn as_bool(&self) -> Option<bool> {
        match self {
            Json::Bool(b) => Some(*b),
            _ => None,
        }
    }
    pub fn as_arr(&self) -> Option<&[Json]> {
        match self {
            Json::Arr(a) => Some(a),
            _ => None,
        }
    }
    pub fn as_obj(&self) -> Option<&[(String, Json)]> {
        match self {
            Json::Obj(o) => Some(o),
            _ => None,
        }
    }

    pub fn to_string(&self) -> String {
        let mut s = String::new();
        self.write(&mut s, None, 0);
        s
    }
    pub fn to_pretty(&self) -> String {
        let mut s = String::new();
        self.write(&mut s, Some(1), 0);
        s.push('\n');
        s
    }

    fn write(&self, out: &mut String, indent: Option<usize>, level: usize) {
        let nl = |out: &mut String, level: usize| {
            if let Some(w) = indent {
                out.push('\n');
                for _ in 0..(w * level) {
                    out.push(' ');
                }
            }
        };
        match self {
            Json::Null => out.push_str("null"),
            Json::Bool(b) => out.push_str(if *b { "true" } else { "false" }),
            Json::Num(n) => {
                if n.is_finite() && n.fract() == 0.0 && n.abs() < 9.0e15 {
                    write!(out, "{}", *n as i64).unwrap();
                } else if n.is_finite() {
                    write!(out, "{n:?}").unwrap();
                } else {
                    out.push_str("null");
                }
            }
            Json::Str(s) => write_str(out, s),
            Json::Arr(a) => {
                out.push('[');
                for (i, v) in a.iter().enumerate() {
                    if i > 0 {
                        out.push(',');
                    }
                    nl(out, level + 1);
                    v.write(out, indent, level + 1);
                }
                if !a.is_empty() {
                    nl(out, level);
                }
                out.push(']');
            }
            Json::Obj(o) => {
                out.push('{');
                for (i, (k, v)) in o.iter().enumerate() {
                    if i > 0 {
                        out.push(',');
                    }
                    nl(out, level + 1);
                    write_str(out, k);
                    out.push(':');
                    if indent.is_some() {
                        out.push(' ');
                    }
                    v.write(out, indent, level + 1);
                }
                if !o.is_empty() {
                    nl(out, level);
                }
                out.push('}');
            }
        }
    }
}

pub fn write_str(out: &mut String, s: &str) {
    out.push('"');
    for c in s.chars() {
        match c {
            '"' => out.push_str("\\\""),
            '\\' => out.push_str("\\\\"),
            '\n' => out.push_str("\\n"),
            '\r' => out.push_str("\\r"),
            '\t' => out.push_str("\\t"),
            c if (c as u32) < 0x20 || c == '\u{7f}' => {
                write!(out, "\\u{:04x}", c as u32).unwrap();
            }
            c => out.push(c),
        }
    }
    out.push('"');
}

pub struct ParseError(pub String);

pub fn parse(text: &str) -> Result<Json, String> {
    let mut p = Parser {
        b: text.as_bytes(),
        i: 0,
    };
    p.ws();
    let v = p.value()?;
    p.ws();
    if p.i != p.b.len() {
        return Err(format!("trailing data at byte {}", p.i));
    }
    Ok(v)
}

struct Parser<'a> {
    b: &'a [u8],
    i: usize,
}

impl Parser<'_> {
    fn ws(&mut self) {
        while self.i < self.b.len() && matches!(self.b[self.i], b' ' | b'\n' | b'\r' | b'\t') {
            self.i += 1;
        }
    }
    fn err<T>(&self, m: &str) -> Result<T, String> {
        Err(format!("{m} at byte {}", self.i))
    }
    fn lit(&mut self, s: &str, v: Json) -> Result<Json, String> {
        if self.b[self.i..].starts_with(s.as_bytes()) {
            self.i += s.len();
            Ok(v)
        } else {
            self.err("bad literal")
        }
    }
    fn value(&mut self) -> Result<Json, String> {
        if self.i >= self.b.len() {
            return self.err("unexpected end");
        }
        match self.b[self.i] {
            b'n' => self.lit("null", Json::Null),
            b't' => self.lit("true", Json::Bool(true)),
            b'f' => self.lit("false", Json::Bool(false)),
            b'"' => Ok(Json::Str(self.string()?)),
            b'[' => {
                self.i += 1;
                let mut items = Vec::new();
                self.ws();
                if self.i < self.b.len() && self.b[self.i] == b']' {
                    self.i += 1;
                    return Ok(Json::Arr(items));
                }
                loop {
                    self.ws();
                    items.push(self.value()?);
                    self.ws();
                    match self.b.get(self.i) {
                        Some(b',') => self.i += 1,
                        Some(b']') => {
                            self.i += 1;
                            return Ok(Json::Arr(items));
                        }
                        _ => return self.err("expected , or ]"),
                    }
                }
            }
            b'{' => {
                self.i += 1;
                let mut fields = Vec::new();
                self.ws();
                if self.i < self.b.len() && self.b[self.i] == b'}' {
                    self.i += 1;
                    return Ok(Json::Obj(fields));
                }
                loop {
                    self.ws();
                    if self.b.get(self.i) != Some(&b'"') {
                        return self.err("expected key");
                    }
                    let k = self.string()?;
                    self.ws();
                    if self.b.get(self.i) != Some(&b':') {
                        return self.err("expected :");
                    }
                    self.i += 1;
                    self.ws();
                    let v = self.value()?;
                    fields.push((k, v));
                    self.ws();
                    match self.b.get(self.i) {
                        Some(b',') => self.i += 1,
                        Some(b'}') => {
                            self.i += 1;
                            return Ok(Json::Obj(fields));
                        }
                        _ => return self.err("expected , or }"),
                    }
                }
            }
            b'-' | b'0'..=b'9' => {
                let start = self.i;
                if self.b[self.i] == b'-' {
                    self.i += 1;
                }
                while self.i < self.b.len()
                    && matches!(self.b[self.i], b'0'..=b'9' | b'.' | b'e' | b'E' | b'+' | b'-')
                {
                    self.i += 1;
                }
                let s = std::str::from_utf8(&self.b[start..self.i]).unwrap();
                s.parse::<f64>()
                    .map(Json::Num)
                    .map_err(|_| format!("bad number {s:?} at byte {start}"))
            }
            _ => self.err("unexpected character"),
        }
    }
    fn hex4(&mut self) -> Result<u32, String> {
        if self.i + 4 > self.b.len() {
            return self.err("short \\u escape");
        }
        let s = std::str::from_utf8(&self.b[self.i..self.i + 4]).map_err(|e| e.to_string())?;
        let v = u32::from_str_radix(s, 16).map_err(|e| e.to_string())?;
        self.i += 4;
        Ok(v)
    }
    fn string(&mut self) -> Result<String, String> {
        self.i += 1;
        let mut out: Vec<u8> = Vec::new();
        loop {
            let Some(&c) = self.b.get(self.i) else {
                return self.err("unterminated string");
            };
            self.i += 1;
            match c {
                b'"' => break,
                b'\\' => {
                    let Some(&e) = self.b.get(self.i) else {
                        return self.err("bad escape");
                    };
                    self.i += 1;
                    let ch = match e {
                        b'"' => '"',
                        b'\\' => '\\',
                        b'/' => '/',
                        b'b' => '\u{8}',
                        b'f' => '\u{c}',
                        b'n' => '\n',
                        b'r' => '\r',
                        b't' => '\t',
                        b'u' => {
                            let mut cp = self.hex4()?;
                            if (0xD800..0xDC00).contains(&cp) {
                                if self.b.get(self.i) == Some(&b'\\')
                                    && self.b.get(self.i + 1) == Some(&b'u')
                                {
                                    self.i += 2;
                                    let lo = self.hex4()?;
                                    if !(0xDC00..0xE000).contains(&lo) {
                                        return self.err("bad low surrogate");
                                    }
                                    cp = 0x10000 + ((cp - 0xD800) << 10) + (lo - 0xDC00);
                                } else {
                                    return self.err("lone surrogate");
                                }
                            }
                            match char::from_u32(cp) {
                                Some(c) => c,
                                None => return self.err("bad code point"),
                            }
                        }
                        _ => return self.err("bad escape"),
                    };
                    let mut buf = [0; 4];
                    out.extend_from_slice(ch.encode_utf8(&mut buf).as_bytes());
                }
                c if c < 0x20 => return self.err("control character in string"),
                c => out.push(c),
            }
        }
        String::from_utf8(out).map_err(|_| "invalid utf-8 in string".to_string())
    }
}

#[cfg(test)]
mod tests {
    use super::*;
    #[test]
    fn roundtrip() {
        let t = r#"{"a":[1,2.5,-3,"x\nyé🙂",null,true,{}],"b":{"c":[]}}"#;
        let v = parse(t).unwrap();
        let s = v.to_string();
        assert_eq!(parse(&s).unwrap(), v);
        assert_eq!(parse(&v.to_pretty()).unwrap(), v);
    }
}

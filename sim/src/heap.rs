//! C03 part 2 — `sim-heap`: the real collector, driven through hook H2,
//! against a reachability reference model.

use std::collections::{BTreeMap, BTreeSet};

use rsjsonnet_lang::verif::heap::HeapSim;

use crate::json::Json;
use crate::rng::Rng;
use crate::util::{bump, Violation};

/// Operands are abstract: `h` selects the (h mod live)-th live handle at
/// execution time, so any sub-sequence of a scenario is again a scenario.
#[derive(Clone, Debug, PartialEq)]
pub enum Op {
    Alloc,
    AllocView,
    Clone(u32),
    Drop(u32),
    Upgrade(u32),
    Downgrade(u32),
    Edge(u32, u32),
    Unedge(u32, u32),
    Clear(u32),
    Gc,
    ReadEdges(u32),
}

impl Op {
    pub fn to_json(&self) -> Json {
        let (name, args): (&str, Vec<u32>) = match self {
            Op::Alloc => ("alloc", vec![]),
            Op::AllocView => ("alloc_view", vec![]),
            Op::Clone(a) => ("clone", vec![*a]),
            Op::Drop(a) => ("drop", vec![*a]),
            Op::Upgrade(a) => ("upgrade", vec![*a]),
            Op::Downgrade(a) => ("downgrade", vec![*a]),
            Op::Edge(a, b) => ("edge", vec![*a, *b]),
            Op::Unedge(a, b) => ("unedge", vec![*a, *b]),
            Op::Clear(a) => ("clear", vec![*a]),
            Op::Gc => ("gc", vec![]),
            Op::ReadEdges(a) => ("read_edges", vec![*a]),
        };
        let mut v = vec![Json::str(name)];
        v.extend(args.into_iter().map(Json::int));
        Json::Arr(v)
    }

    pub fn from_json(j: &Json) -> Option<Op> {
        let a = j.as_arr()?;
        let name = a.first()?.as_str()?;
        let arg = |i: usize| a.get(i).and_then(|x| x.as_u64()).map(|x| x as u32);
        Some(match name {
            "alloc" => Op::Alloc,
            "alloc_view" => Op::AllocView,
            "clone" => Op::Clone(arg(1)?),
            "drop" => Op::Drop(arg(1)?),
            "upgrade" => Op::Upgrade(arg(1)?),
            "downgrade" => Op::Downgrade(arg(1)?),
            "edge" => Op::Edge(arg(1)?, arg(2)?),
            "unedge" => Op::Unedge(arg(1)?, arg(2)?),
            "clear" => Op::Clear(arg(1)?),
            "gc" => Op::Gc,
            "read_edges" => Op::ReadEdges(arg(1)?),
            _ => return None,
        })
    }
}

pub fn ops_to_json(ops: &[Op]) -> Json {
    Json::obj(vec![("ops", Json::Arr(ops.iter().map(Op::to_json).collect()))])
}

pub fn ops_from_json(j: &Json) -> Option<Vec<Op>> {
    j.get("ops")?.as_arr()?.iter().map(Op::from_json).collect()
}

/// Swarm-style generation: the op mix is drawn per run.
pub fn gen_ops(rng: &mut Rng) -> Vec<Op> {
    let len = 1 + rng.usize_below(60);
    // weights: alloc, alloc_view, clone, drop, upgrade, downgrade, edge, unedge, clear, gc, read
    let mixes: [[u32; 11]; 6] = [
        [6, 3, 2, 5, 2, 2, 8, 2, 1, 4, 1],  // balanced
        [4, 1, 1, 6, 1, 1, 14, 1, 0, 3, 1], // cycle-heavy
        [3, 2, 8, 8, 4, 4, 3, 1, 1, 4, 1],  // handle churn
        [2, 8, 3, 4, 5, 5, 5, 1, 1, 4, 1],  // many views
        [8, 1, 0, 3, 0, 1, 10, 0, 0, 1, 1], // long chains, rare gc
        [3, 2, 2, 4, 2, 2, 6, 4, 3, 10, 2], // gc-heavy
    ];
    let mut w = mixes[rng.usize_below(mixes.len())];
    // randomly disable some op kinds (swarm)
    for wi in w.iter_mut().skip(2) {
        if rng.chance(1, 8) {
            *wi = 0;
        }
    }
    let mut ops = Vec::with_capacity(len + 1);
    for _ in 0..len {
        let a = rng.below(64) as u32;
        let b = rng.below(64) as u32;
        // bias edges towards self-loops / repeated targets sometimes
        let b = if rng.chance(1, 6) { a } else { b };
        ops.push(match rng.weighted(&w) {
            0 => Op::Alloc,
            1 => Op::AllocView,
            2 => Op::Clone(a),
            3 => Op::Drop(a),
            4 => Op::Upgrade(a),
            5 => Op::Downgrade(a),
            6 => Op::Edge(a, b),
            7 => Op::Unedge(a, b),
            8 => Op::Clear(a),
            9 => Op::Gc,
            _ => Op::ReadEdges(a),
        });
    }
    if rng.chance(3, 4) {
        ops.push(Op::Gc);
    }
    ops
}

/// Reference model: nodes in the heap, ordered edge lists, external handles.
#[derive(Default)]
struct Model {
    heap: BTreeSet<u32>,
    edges: BTreeMap<u32, Vec<u32>>,
    /// live handles in creation order: (real slot, node, is_view)
    handles: Vec<(usize, u32, bool)>,
}

impl Model {
    fn reachable(&self) -> BTreeSet<u32> {
        let mut seen: BTreeSet<u32> = BTreeSet::new();
        let mut stack: Vec<u32> = Vec::new();
        for &(_, n, _) in &self.handles {
            if self.heap.contains(&n) && seen.insert(n) {
                stack.push(n);
            }
        }
        while let Some(n) = stack.pop() {
            if let Some(es) = self.edges.get(&n) {
                for &t in es {
                    if self.heap.contains(&t) && seen.insert(t) {
                        stack.push(t);
                    }
                }
            }
        }
        seen
    }
}

#[derive(Default)]
pub struct RunStats {
    pub ops: u64,
    pub gcs: u64,
    pub gcs_freeing_proper_subset: u64,
    pub gcs_freeing_cycle: u64,
    pub nontrivial_sigs: Vec<u64>,
    pub probes: BTreeMap<String, u64>,
    pub log: String,
}

pub struct Failure {
    pub invariant: &'static str,
    pub class: String,
    pub detail: String,
    pub op_index: usize,
}

fn shape_sig(model: &Model, freed: &BTreeSet<u32>) -> u64 {
    // multiset of per-node (outdeg, indeg, weak handles, views, freed) — invariant
    // under renaming, so isomorphic states always collide (conservative count).
    let mut indeg: BTreeMap<u32, u32> = BTreeMap::new();
    for (from, es) in &model.edges {
        if model.heap.contains(from) {
            for t in es {
                *indeg.entry(*t).or_insert(0) += 1;
            }
        }
    }
    let mut rows: Vec<(u32, u32, u32, u32, bool)> = Vec::new();
    for &n in &model.heap {
        let out = model.edges.get(&n).map(|e| e.len() as u32).unwrap_or(0);
        let inn = indeg.get(&n).copied().unwrap_or(0);
        let weak = model.handles.iter().filter(|h| h.1 == n && !h.2).count() as u32;
        let view = model.handles.iter().filter(|h| h.1 == n && h.2).count() as u32;
        rows.push((out, inn, weak, view, freed.contains(&n)));
    }
    rows.sort();
    crate::rng::fnv1a64(&format!("{rows:?}"))
}

/// Executes a scenario against the real collector and the model.
pub fn run_ops(ops: &[Op], stats: &mut RunStats) -> Result<(), Failure> {
    use std::fmt::Write as _;
    let mut sim = HeapSim::new();
    let mut m = Model::default();
    macro_rules! fail {
        ($i:expr, $inv:expr, $class:expr, $($arg:tt)*) => {
            return Err(Failure { invariant: $inv, class: $class.to_string(), detail: format!($($arg)*), op_index: $i })
        };
    }
    for (i, op) in ops.iter().enumerate() {
        stats.ops += 1;
        let nh = m.handles.len();
        let sel = |h: u32| -> Option<usize> { if nh == 0 { None } else { Some(h as usize % nh) } };
        match op {
            Op::Alloc | Op::AllocView => {
                let view = matches!(op, Op::AllocView);
                let (id, slot) = if view { sim.alloc_view() } else { sim.alloc() };
                m.heap.insert(id);
                m.edges.insert(id, Vec::new());
                m.handles.push((slot, id, view));
                writeln!(stats.log, "{i} alloc view={view} -> n{id}").unwrap();
            }
            Op::Clone(h) => {
                if let Some(k) = sel(*h) {
                    let (slot, n, v) = m.handles[k];
                    let new = sim.clone_handle(slot).expect("harness: slot vanished");
                    m.handles.push((new, n, v));
                    writeln!(stats.log, "{i} clone n{n} view={v}").unwrap();
                }
            }
            Op::Drop(h) => {
                if let Some(k) = sel(*h) {
                    let (slot, n, v) = m.handles.remove(k);
                    assert!(sim.drop_handle(slot), "harness: slot vanished");
                    writeln!(stats.log, "{i} drop n{n} view={v}").unwrap();
                }
            }
            Op::Upgrade(h) => {
                if let Some(k) = sel(*h) {
                    let (slot, n, _) = m.handles[k];
                    match sim.upgrade(slot).expect("harness: slot vanished") {
                        Ok(new) => {
                            m.handles.push((new, n, true));
                            writeln!(stats.log, "{i} upgrade n{n} ok").unwrap();
                        }
                        Err(()) => {
                            // an externally held handle always designates a live object
                            fail!(i, "H-b", "live-object-reclaimed:upgrade", "upgrade of an externally held handle to n{n} failed: the object was destroyed");
                        }
                    }
                }
            }
            Op::Downgrade(h) => {
                if let Some(k) = sel(*h) {
                    let (slot, n, _) = m.handles[k];
                    let new = sim.downgrade(slot).expect("harness: slot vanished");
                    m.handles.push((new, n, false));
                    writeln!(stats.log, "{i} downgrade n{n}").unwrap();
                }
            }
            Op::Edge(a, b) => {
                if let (Some(ka), Some(kb)) = (sel(*a), sel(*b)) {
                    let (sa, na, _) = m.handles[ka];
                    let (sb, nb, _) = m.handles[kb];
                    match sim.add_edge(sa, sb).expect("harness: slot vanished") {
                        true => {
                            m.edges.get_mut(&na).unwrap().push(nb);
                            if na == nb {
                                bump(&mut stats.probes, "self_loop_edges");
                            }
                            writeln!(stats.log, "{i} edge n{na}->n{nb}").unwrap();
                        }
                        false => fail!(i, "H-b", "live-object-reclaimed:edge-source", "edge source n{na} held by an external handle was destroyed"),
                    }
                }
            }
            Op::Unedge(a, idx) => {
                if let Some(ka) = sel(*a) {
                    let (sa, na, _) = m.handles[ka];
                    let es = m.edges.get_mut(&na).unwrap();
                    let index = if es.is_empty() { 0 } else { *idx as usize % es.len() };
                    match sim.remove_edge(sa, index).expect("harness: slot vanished") {
                        true => {
                            if index < es.len() {
                                es.remove(index);
                            }
                            writeln!(stats.log, "{i} unedge n{na}[{index}]").unwrap();
                        }
                        false => fail!(i, "H-b", "live-object-reclaimed:edge-source", "node n{na} held by an external handle was destroyed"),
                    }
                }
            }
            Op::Clear(a) => {
                if let Some(ka) = sel(*a) {
                    let (sa, na, _) = m.handles[ka];
                    match sim.clear_edges(sa).expect("harness: slot vanished") {
                        true => {
                            m.edges.get_mut(&na).unwrap().clear();
                            writeln!(stats.log, "{i} clear n{na}").unwrap();
                        }
                        false => fail!(i, "H-b", "live-object-reclaimed:edge-source", "node n{na} held by an external handle was destroyed"),
                    }
                }
            }
            Op::ReadEdges(a) => {
                if let Some(ka) = sel(*a) {
                    let (sa, na, _) = m.handles[ka];
                    check_edges(&sim, &m, sa, na).map_err(|d| Failure { invariant: "H-e", class: "edges-differ".into(), detail: d, op_index: i })?;
                }
            }
            Op::Gc => {
                stats.gcs += 1;
                let before = m.heap.clone();
                let reach = m.reachable();
                let expect_freed: BTreeSet<u32> = before.difference(&reach).copied().collect();
                // audit before the collection: exact prediction from the model
                let (objs, over, under, stale) = sim.audit();
                let exp_under = m.heap.iter().filter(|n| m.handles.iter().any(|h| h.1 == **n && !h.2)).count();
                if objs != m.heap.len() || over != 0 || stale != 0 || under != exp_under {
                    fail!(i, "G5", "audit-mismatch", "audit before gc gave (objects,over,under,stale)=({objs},{over},{under},{stale}); model expects ({},0,{exp_under},0)", m.heap.len());
                }
                let pre_dropped = sim.take_dropped();
                if !pre_dropped.is_empty() {
                    fail!(i, "H-b", "destroyed-outside-gc", "nodes {pre_dropped:?} were destroyed outside a collection");
                }
                sim.gc();
                let dropped: BTreeSet<u32> = sim.take_dropped().into_iter().collect();
                writeln!(stats.log, "{i} gc freed={dropped:?}").unwrap();
                if dropped != expect_freed {
                    let wrongly_freed: Vec<_> = dropped.difference(&expect_freed).collect();
                    let leaked: Vec<_> = expect_freed.difference(&dropped).collect();
                    if !wrongly_freed.is_empty() {
                        fail!(i, "H-a", "reachable-object-freed", "gc destroyed reachable nodes {wrongly_freed:?} (leaked: {leaked:?}); reachable set {reach:?}");
                    }
                    fail!(i, "H-a", "unreachable-object-survived", "gc kept unreachable nodes {leaked:?}; reachable set {reach:?}");
                }
                if !expect_freed.is_empty() && !reach.is_empty() {
                    stats.gcs_freeing_proper_subset += 1;
                    stats.nontrivial_sigs.push(shape_sig(&m, &expect_freed));
                }
                // did we free a cycle?
                if expect_freed.iter().any(|n| {
                    m.edges.get(n).map(|es| es.iter().any(|t| expect_freed.contains(t) && reaches(&m, *t, *n, &expect_freed))).unwrap_or(false)
                }) {
                    stats.gcs_freeing_cycle += 1;
                }
                m.heap = reach;
                for n in &expect_freed {
                    m.edges.remove(n);
                }
                if sim.num_objects() != m.heap.len() {
                    fail!(i, "H-c", "object-count", "num_objects()={} after gc, model has {}", sim.num_objects(), m.heap.len());
                }
                // post-condition audit
                let (objs, over, under, stale) = sim.audit();
                let exp_under = m.heap.iter().filter(|n| m.handles.iter().any(|h| h.1 == **n && !h.2)).count();
                if objs != m.heap.len() || over != 0 || stale != 0 || under != exp_under {
                    fail!(i, "G4", "audit-mismatch-after-gc", "audit after gc gave (objects,over,under,stale)=({objs},{over},{under},{stale}); model expects ({},0,{exp_under},0)", m.heap.len());
                }
                // idempotence
                sim.gc();
                let again = sim.take_dropped();
                if !again.is_empty() || sim.num_objects() != m.heap.len() {
                    fail!(i, "H-d", "second-gc-frees", "a second gc destroyed {again:?}");
                }
                // every externally held handle still works, edges read back
                let hs = m.handles.clone();
                for (slot, n, _) in hs {
                    check_edges(&sim, &m, slot, n).map_err(|d| Failure { invariant: "H-e", class: "edges-differ".into(), detail: d, op_index: i })?;
                }
            }
        }
        if !matches!(op, Op::Gc) {
            let d = sim.take_dropped();
            if !d.is_empty() {
                fail!(i, "H-b", "destroyed-outside-gc", "nodes {d:?} were destroyed outside a collection by {op:?}");
            }
            if sim.num_objects() != m.heap.len() {
                fail!(i, "H-c", "object-count", "num_objects()={} model {}", sim.num_objects(), m.heap.len());
            }
        }
    }
    Ok(())
}

fn reaches(m: &Model, from: u32, to: u32, within: &BTreeSet<u32>) -> bool {
    let mut seen = BTreeSet::new();
    let mut stack = vec![from];
    while let Some(n) = stack.pop() {
        if n == to {
            return true;
        }
        if !seen.insert(n) {
            continue;
        }
        if let Some(es) = m.edges.get(&n) {
            for t in es {
                if within.contains(t) {
                    stack.push(*t);
                }
            }
        }
    }
    false
}

fn check_edges(sim: &HeapSim, m: &Model, slot: usize, n: u32) -> Result<(), String> {
    match sim.edges(slot).expect("harness: slot vanished") {
        None => Err(format!("node n{n} held by an external handle was destroyed")),
        Some(real) => {
            let expect: Vec<Option<u32>> = m.edges[&n].iter().map(|t| Some(*t)).collect();
            if real != expect {
                Err(format!("edges of n{n} read back as {real:?}, model has {expect:?} (None = destroyed target)"))
            } else {
                Ok(())
            }
        }
    }
}

pub fn to_violation(ops: &[Op], f: &Failure, run_index: u64, log: &str, minimised: bool) -> Violation {
    Violation {
        property: "C03".into(),
        engine: "sim-heap".into(),
        invariant: f.invariant.into(),
        class: f.class.clone(),
        detail: format!("at op {}: {}", f.op_index, f.detail),
        run_index,
        scenario: ops_to_json(ops),
        observed: Json::str(&f.detail),
        expected: Json::str("heap == objects reachable from externally held handles after every gc"),
        event_log_sha256: crate::util::sha256_hex(log.as_bytes()),
        minimised,
    }
}

/// Runs a scenario with panics caught.
pub fn run_caught(ops: &[Op], stats: &mut RunStats) -> Result<(), Failure> {
    let r = std::panic::catch_unwind(std::panic::AssertUnwindSafe(|| run_ops(ops, stats)));
    match r {
        Ok(r) => r,
        Err(p) => {
            let msg = crate::util::panic_message(&p);
            if msg.starts_with("harness:") {
                eprintln!("HARNESS ERROR: {msg}");
                std::process::exit(2);
            }
            Err(Failure { invariant: "G2", class: format!("panic:{}", msg.chars().take(60).collect::<String>()), detail: msg, op_index: ops.len() })
        }
    }
}

pub fn minimise(ops: &[Op], class: &str) -> Vec<Op> {
    let mut budget = 400usize;
    crate::util::ddmin(ops, &mut budget, |cand| {
        let mut st = RunStats::default();
        matches!(run_caught(cand, &mut st), Err(f) if f.class == class)
    })
}

pub struct Batch {
    pub runs: u64,
    pub ops: u64,
    pub gcs: u64,
    pub gcs_freeing_proper_subset: u64,
    pub gcs_freeing_cycle: u64,
    pub distinct_sigs: usize,
    pub probes: BTreeMap<String, u64>,
    pub violations: Vec<Violation>,
    pub samples: Vec<Json>,
    pub determinism_reexecuted: u64,
    pub determinism_mismatches: u64,
    pub hashes: Vec<u64>,
}

/// Seeded search: `runs` scenarios from the root seed.
pub fn batch(root: u64, runs: u64, workers: usize) -> Batch {
    struct One {
        stats: RunStats,
        failure: Option<(Vec<Op>, Failure)>,
        sample: Option<Json>,
        log_hash: u64,
    }
    let one = |i: u64| -> One {
        let seed = crate::rng::run_seed(root, "sim-heap", i);
        let mut rng = Rng::stream(seed, "ops");
        let ops = gen_ops(&mut rng);
        let mut stats = RunStats::default();
        let r = run_caught(&ops, &mut stats);
        let log_hash = crate::rng::fnv1a64(&stats.log);
        let sample = if i < 3 {
            Some(Json::obj(vec![("run", Json::Num(i as f64)), ("scenario", ops_to_json(&ops)), ("event_log", Json::str(&stats.log)), ("outcome", Json::str(if r.is_ok() { "held" } else { "violated" }))]))
        } else {
            None
        };
        stats.log.clear();
        One { stats, failure: r.err().map(|f| (ops, f)), sample, log_hash }
    };
    let mut b = Batch { runs, ops: 0, gcs: 0, gcs_freeing_proper_subset: 0, gcs_freeing_cycle: 0, distinct_sigs: 0, probes: BTreeMap::new(), violations: Vec::new(), samples: Vec::new(), determinism_reexecuted: 0, determinism_mismatches: 0, hashes: Vec::new() };
    let mut sigs: std::collections::HashSet<u64> = std::collections::HashSet::new();
    let mut classes_seen: BTreeMap<String, u32> = BTreeMap::new();
    let keep_hashes = std::env::var("VERIF_HASH_DUMP").is_ok();
    // determinism sample: ~2 % of the runs (at most 50 000) are re-executed single-threaded at the end
    let step = (runs / (runs / 50).clamp(16, 50_000).min(runs.max(1))).max(1);
    let mut sampled: Vec<(u64, u64)> = Vec::new();
    // results are folded chunk by chunk so that memory does not grow with the batch size
    const CHUNK: u64 = 500_000;
    let mut base = 0u64;
    while base < runs {
        let n = CHUNK.min(runs - base);
        let results = crate::util::run_pool(n, workers, |k| one(base + k));
        for (k, r) in results.iter().enumerate() {
            let i = base + k as u64;
            if keep_hashes {
                b.hashes.push(r.log_hash);
            }
            if i % step == 0 {
                sampled.push((i, r.log_hash));
            }
            b.ops += r.stats.ops;
            b.gcs += r.stats.gcs;
            b.gcs_freeing_proper_subset += r.stats.gcs_freeing_proper_subset;
            b.gcs_freeing_cycle += r.stats.gcs_freeing_cycle;
            crate::util::merge_counts(&mut b.probes, &r.stats.probes);
            sigs.extend(r.stats.nontrivial_sigs.iter().copied());
            if let Some(s) = &r.sample {
                b.samples.push(s.clone());
            }
            if let Some((ops, f)) = &r.failure {
                let n = classes_seen.entry(f.class.clone()).or_insert(0);
                *n += 1;
                if *n == 1 && crate::util::claim_minimisation(&f.class) {
                    // minimise, confirm, report
                    let min_ops = minimise(ops, &f.class);
                    let mut st = RunStats::default();
                    match run_caught(&min_ops, &mut st) {
                        Err(f2) if f2.class == f.class => b.violations.push(to_violation(&min_ops, &f2, i, &st.log, true)),
                        _ => {
                            let mut st = RunStats::default();
                            let _ = run_caught(ops, &mut st);
                            b.violations.push(to_violation(ops, f, i, &st.log, false));
                        }
                    }
                } else if b.violations.len() < 200 {
                    b.violations.push(to_violation(ops, f, i, "", false));
                }
            }
        }
        base += n;
    }
    b.distinct_sigs = sigs.len();
    for (i, h) in sampled {
        let again = one(i);
        b.determinism_reexecuted += 1;
        if again.log_hash != h {
            b.determinism_mismatches += 1;
        }
    }
    b
}

/// Replays an explicit scenario; returns the violation if it still fails.
pub fn replay(scenario: &Json) -> Result<Option<Violation>, String> {
    let ops = ops_from_json(scenario).ok_or("bad sim-heap scenario")?;
    let mut st = RunStats::default();
    Ok(match run_caught(&ops, &mut st) {
        Ok(()) => None,
        Err(f) => Some(to_violation(&ops, &f, 0, &st.log, true)),
    })
}

//! C03 part 1 — `sim-gc`: the real `Program` under a scheduler-owned collector.

use std::collections::{BTreeMap, BTreeSet};
use std::sync::Arc;

use rsjsonnet_lang::arena::Arena;

use crate::corpus::Corpus;
use crate::json::Json;
use crate::pgen::{Gen, GenCfg, Node, Ty, COMPARE_SNIPPETS, COMPREHENSION_SNIPPETS, CYCLIC_SNIPPETS};
use crate::prog::{sched_mode_name, AuditMode, CbGc, Ctx, Out, Sched, SchedMode, SchedStats, World};
use crate::reqs::{ops_from_json, ops_to_json, Exec, Op, Req};
use crate::rng::Rng;
use crate::util::{bump, bump_by, Violation};

#[derive(Clone)]
pub struct Scenario {
    pub world: World,
    pub ops: Vec<Op>,
    pub max_stack: Option<usize>,
    pub repeat: u32,
    /// generated sources kept as trees for structural shrinking
    pub nodes: BTreeMap<String, Node>,
    pub origin: String,
}

#[derive(Clone, Debug)]
pub struct SchedSpec {
    pub mode: SchedMode,
    pub audit: AuditMode,
    pub cb_gc: CbGc,
}

impl SchedSpec {
    pub fn never() -> Self {
        SchedSpec { mode: SchedMode::Never, audit: AuditMode::None, cb_gc: CbGc::Never }
    }
    pub fn to_json(&self) -> Json {
        let mode = match &self.mode {
            SchedMode::Explicit(set) => Json::obj(vec![("kind", Json::str("explicit")), ("collect_at", Json::Arr(set.iter().map(|v| Json::Num(*v as f64)).collect()))]),
            m => Json::obj(vec![("kind", Json::str(sched_mode_name(m)))]),
        };
        let cb = match &self.cb_gc {
            CbGc::Explicit(set) => Json::Arr(set.iter().map(|v| Json::Num(*v as f64)).collect()),
            _ => Json::Arr(vec![]),
        };
        let audit = match self.audit {
            AuditMode::None => "none",
            AuditMode::AtCollect => "collect",
            AuditMode::Sample => "collect",
            AuditMode::All => "all",
        };
        Json::obj(vec![("mode", mode), ("callback_gc", cb), ("audit", Json::str(audit))])
    }
    pub fn from_json(j: &Json) -> Option<SchedSpec> {
        let m = j.get("mode")?;
        let mode = match m.get("kind")?.as_str()? {
            "explicit" => SchedMode::Explicit(m.get("collect_at")?.as_arr()?.iter().filter_map(|v| v.as_u64()).collect()),
            "never" => SchedMode::Never,
            "heuristic" => SchedMode::Heuristic,
            "every" => SchedMode::Every,
            _ => return None,
        };
        let cb: BTreeSet<u64> = j.get("callback_gc")?.as_arr()?.iter().filter_map(|v| v.as_u64()).collect();
        let audit = match j.get("audit")?.as_str()? {
            "all" => AuditMode::All,
            "collect" => AuditMode::AtCollect,
            _ => AuditMode::None,
        };
        Some(SchedSpec { mode, audit, cb_gc: if cb.is_empty() { CbGc::Never } else { CbGc::Explicit(cb) } })
    }
}

pub fn scenario_to_json(sc: &Scenario, sched: &SchedSpec, touched: Option<&BTreeSet<String>>) -> Json {
    let mut f = sc.world.to_json(touched);
    f.push(("natives".into(), Json::Arr(crate::prog::NATIVES.iter().map(|s| Json::str(*s)).collect())));
    f.push(("max_stack".into(), sc.max_stack.map(|n| Json::int(n as i64)).unwrap_or(Json::Null)));
    f.push(("requests".into(), ops_to_json(&sc.ops)));
    f.push(("schedule".into(), sched.to_json()));
    f.push(("repeat".into(), Json::int(sc.repeat)));
    f.push(("origin".into(), Json::str(&sc.origin)));
    Json::Obj(f)
}

pub fn scenario_from_json(j: &Json) -> Option<(Scenario, SchedSpec)> {
    let world = World::from_json(j)?;
    let ops = ops_from_json(j.get("requests")?)?;
    let sched = SchedSpec::from_json(j.get("schedule")?)?;
    Some((
        Scenario {
            world,
            ops,
            max_stack: j.get("max_stack").and_then(|v| v.as_u64()).map(|v| v as usize),
            repeat: j.get("repeat").and_then(|v| v.as_u64()).unwrap_or(1) as u32,
            nodes: BTreeMap::new(),
            origin: j.get("origin").and_then(|v| v.as_str()).unwrap_or("replay").to_string(),
        },
        sched,
    ))
}

// ---------------------------------------------------------------------------
// scenario generation

pub fn gen_scenario(seed: u64) -> Scenario {
    let mut g = Rng::stream(seed, "gen");
    let mut o = Rng::stream(seed, "ops");
    let mut files: BTreeMap<String, Vec<u8>> = BTreeMap::new();
    let mut nodes = BTreeMap::new();
    let mut cfg = GenCfg::draw(&mut g);
    // library files for import
    let nlibs = if g.chance(1, 2) { g.usize_below(3) } else { 0 };
    let mut imports = Vec::new();
    for i in 0..nlibs {
        let ty = match g.below(4) { 0 => Ty::Num, 1 => Ty::Str, 2 => Ty::Obj, _ => Ty::Arr(Box::new(Ty::Num)) };
        let mut lcfg = cfg.clone();
        lcfg.size = lcfg.size.min(40);
        lcfg.big_heap = false;
        lcfg.deep = None;
        lcfg.imports = imports.clone();
        let node = Gen::new(&mut g, lcfg).program(&ty);
        let name = format!("lib/l{i}.libsonnet");
        files.insert(name.clone(), node.print().into_bytes());
        nodes.insert(name.clone(), node);
        imports.push((format!("lib/l{i}.libsonnet"), ty));
    }
    if g.chance(1, 4) {
        files.insert("lib/data.bin".into(), vec![0, 159, 146, 150, 255, 10, 65]);
    }
    cfg.imports = imports;
    // ext vars
    let mut ext = Vec::new();
    if g.chance(1, 4) {
        ext.push(("es".to_string(), false, "ext \"string\" = é".to_string()));
        cfg.ext_vars.push(("es".into(), Ty::Str));
    }
    if g.chance(1, 5) {
        ext.push(("ec".to_string(), true, "{ a: [1, 2, { b: 3 }], s: \"x\" + 1 }".to_string()));
        cfg.ext_vars.push(("ec".into(), Ty::Obj));
    }
    if cfg.natives {
        let mut ocfg = cfg.clone();
        ocfg.size = 20;
        ocfg.big_heap = false;
        ocfg.deep = None;
        let node = Gen::new(&mut g, ocfg).program(&Ty::Any);
        files.insert("other.jsonnet".into(), node.print().into_bytes());
        nodes.insert("other.jsonnet".into(), node);
    }
    // mains
    let nmains = 1 + g.usize_below(3);
    let mut ops = Vec::new();
    let mut fun_mains = Vec::new();
    for i in 0..nmains {
        let name = format!("main{i}.jsonnet");
        if cfg.cycles && g.chance(1, 6) {
            let s = *g.pick(CYCLIC_SNIPPETS);
            files.insert(name.clone(), s.as_bytes().to_vec());
        } else if g.chance(1, 10) {
            let s = *g.pick(COMPARE_SNIPPETS);
            files.insert(name.clone(), s.as_bytes().to_vec());
        } else if g.chance(1, 10) {
            let s = *g.pick(COMPREHENSION_SNIPPETS);
            files.insert(name.clone(), s.as_bytes().to_vec());
        } else if cfg.functions && g.chance(1, 5) {
            // a top-level function (exercises eval_call)
            let mut c2 = cfg.clone();
            c2.big_heap = false;
            c2.deep = None;
            let mut gn = Gen::new(&mut g, c2);
            let body = gn.expr(&Ty::Any, 0);
            let node = Node { ty: Ty::Fun(2, Box::new(Ty::Any)), parts: vec![crate::pgen::P::T("function(a, b = [a, 2]) [a, b, ".into()), crate::pgen::P::N(body), crate::pgen::P::T("]".into())] };
            files.insert(name.clone(), node.print().into_bytes());
            nodes.insert(name.clone(), node);
            fun_mains.push(i as u32);
        } else {
            let ty = Ty::Any;
            let mut c2 = cfg.clone();
            if i > 0 {
                c2.big_heap = false;
            }
            let node = Gen::new(&mut g, c2).program(&ty);
            files.insert(name.clone(), node.print().into_bytes());
            nodes.insert(name.clone(), node);
        }
        ops.push(Op::plain(Req::Load(name)));
    }
    // request mix
    let nreq = 1 + o.usize_below(8);
    for _ in 0..nreq {
        let h = o.below(16) as u32;
        let req = match o.below(20) {
            0..=7 => Req::Eval { thunk: h, keep: o.chance(1, 2) },
            8 | 9 => {
                if !fun_mains.is_empty() {
                    let f = *o.pick(&fun_mains);
                    // thunk handles 0..nmains are the loads in order (unless dropped)
                    if o.chance(1, 2) {
                        Req::Call { thunk: f, pos: vec![o.below(16) as u32], named: vec![], keep: o.chance(1, 2) }
                    } else {
                        Req::Call { thunk: f, pos: vec![], named: vec![("a".into(), o.below(16) as u32), ("b".into(), o.below(16) as u32)], keep: o.chance(1, 2) }
                    }
                } else {
                    Req::Top { thunk: h, tla: vec![("a".into(), false, "tla".into())], keep: o.chance(1, 2) }
                }
            }
            10 | 11 => Req::Manifest { value: h, multiline: o.chance(1, 2) },
            12 => Req::ToThunk { value: h },
            13 => {
                if o.chance(1, 2) {
                    Req::MakeArray { values: vec![o.below(16) as u32, o.below(16) as u32] }
                } else {
                    Req::MakeObject { values: vec![o.below(16) as u32, o.below(16) as u32] }
                }
            }
            14 | 15 => Req::Gc,
            16 => Req::DropThunk(h),
            17 => Req::DropValue(h),
            _ => Req::Top { thunk: h, tla: vec![], keep: o.chance(1, 2) },
        };
        ops.push(Op::plain(req));
    }
    Scenario { world: World { files: Arc::new(files), ext }, ops, max_stack: None, repeat: 3, nodes, origin: "generated".into() }
}

pub fn corpus_scenario(corpus: &Corpus, k: usize) -> Scenario {
    let e = &corpus.entries[k % corpus.entries.len()];
    let ops = vec![
        Op::plain(Req::Load(e.path.clone())),
        Op::plain(Req::Top { thunk: 0, tla: e.tla.clone(), keep: true }),
        Op::plain(Req::Manifest { value: 0, multiline: false }),
    ];
    Scenario { world: World { files: corpus.files.clone(), ext: e.ext.clone() }, ops, max_stack: e.max_stack, repeat: 2, nodes: BTreeMap::new(), origin: format!("corpus:{}", e.path) }
}

// ---------------------------------------------------------------------------
// one execution of a scenario under a schedule

#[derive(Default)]
pub struct RunResult {
    pub outs: Vec<Out>,
    pub traces: Vec<String>,
    pub cb_log: Vec<String>,
    pub steps: u64,
    pub sched_stats: SchedStats,
    pub collected: Vec<u64>,
    pub cb_gc_done: Vec<u64>,
    pub cb_gc_kinds: BTreeMap<String, u64>,
    pub cb_kinds: BTreeMap<String, u64>,
    pub nested_evals: u64,
    pub nested_swallowed: u64,
    pub heuristic_gcs: u64,
    /// internal-invariant failures (G2..G5): (invariant, class, detail)
    pub failures: Vec<(String, String, String)>,
    pub baseline: usize,
    pub end_counts: Vec<usize>,
    pub touched: BTreeSet<String>,
    pub audits: u64,
    pub log: String,
    pub over_budget: bool,
}

pub fn run_scenario(sc: &Scenario, spec: &SchedSpec, sched_seed: u64) -> RunResult {
    use std::fmt::Write as _;
    let arena = Arena::new();
    let mut r = RunResult::default();
    let ctx = match std::panic::catch_unwind(std::panic::AssertUnwindSafe(|| Ctx::new(&arena, &sc.world))) {
        Ok(c) => c,
        Err(p) => {
            r.failures.push(("G2".into(), "panic:setup".into(), crate::util::panic_message(&p)));
            return r;
        }
    };
    let mut ex = Exec::new(ctx);
    if let Some(n) = sc.max_stack {
        ex.max_stack = n;
        ex.ctx.program.set_max_stack(n);
    }
    // baseline B: only the program's own persistent roots are alive
    let _ = ex.ctx.gc();
    r.baseline = ex.ctx.program.verif_num_objects();
    let gc_runs0 = ex.ctx.program.verif_gc_runs();
    let heur0 = ex.ctx.program.verif_heuristic_gc_runs();
    let lazy_roots = sc.world.ext.iter().any(|e| e.1);
    let sched = ex.ctx.install_sched(Sched::new(spec.mode.clone(), spec.audit.clone(), Rng::stream(sched_seed, "sched")));
    ex.ctx.cb.cb_gc = spec.cb_gc.clone();
    ex.ctx.cb.cb_gc_rng = Rng::stream(sched_seed, "cbgc");
    let mut panicked = false;
    'reps: for rep in 0..sc.repeat.max(1) {
        for (i, op) in sc.ops.iter().enumerate() {
            let (out, _res) = ex.step(i, op);
            writeln!(r.log, "rep{rep} op{i} {:?} -> {}", op.req, out.short()).unwrap();
            // decider-requested audits of this request
            for a in ex.ctx.program.verif_take_audits() {
                r.audits += 1;
                if a.over > 0 || a.stale > 0 {
                    r.failures.push(("G5a".into(), if a.over > 0 { "audit-over".into() } else { "audit-stale".into() }, format!("audit at step {} (rep {rep}, request {i}): objects={} over={} under={} stale={}", a.ordinal, a.objects, a.over, a.under, a.stale)));
                }
            }
            if out.is_budget() {
                r.over_budget = true;
                r.outs.push(out);
                break 'reps;
            }
            if let Out::Panic(m) = &out {
                let class = if m.starts_with("G4:") { "gc-count-grew".to_string() } else { format!("panic:{}", m.chars().take(50).collect::<String>()) };
                r.failures.push((if m.starts_with("G4:") { "G4" } else { "G2" }.into(), class, format!("rep {rep} request {i} {:?}: {m}", op.req)));
                r.outs.push(out);
                panicked = true;
                break 'reps;
            }
            r.outs.push(out);
        }
        // quiescence: drop everything, collect, count
        ex.drop_all_handles();
        let c1 = match ex.ctx.gc() {
            Ok((_, a)) => a,
            Err(o) => {
                r.failures.push(("G2".into(), "panic:final-gc".into(), o.short()));
                panicked = true;
                break 'reps;
            }
        };
        ex.explicit_gcs += 1;
        let c2 = match ex.ctx.gc() {
            Ok((_, a)) => a,
            Err(o) => {
                r.failures.push(("G2".into(), "panic:final-gc".into(), o.short()));
                panicked = true;
                break 'reps;
            }
        };
        ex.explicit_gcs += 1;
        writeln!(r.log, "rep{rep} end objects={c1} then {c2}").unwrap();
        if c2 != c1 {
            r.failures.push(("G3".into(), "second-gc-frees".into(), format!("rep {rep}: {c1} objects after gc, {c2} after a second gc (baseline {})", r.baseline)));
        }
        r.end_counts.push(c1);
        match ex.ctx.audit() {
            Ok((objs, over, under, stale)) => {
                r.audits += 1;
                if over > 0 || under > 0 || stale > 0 {
                    r.failures.push(("G5b".into(), if over > 0 { "audit-over".into() } else if under > 0 { "audit-under".into() } else { "audit-stale".into() }, format!("quiescent audit after rep {rep}: objects={objs} over={over} under={under} stale={stale}")));
                }
            }
            Err(o) => r.failures.push(("G2".into(), "panic:audit".into(), o.short())),
        }
    }
    if r.over_budget {
        // abandoned by the harness: nothing is judged; the program state is dropped as it is
        r.failures.clear();
        return r;
    }
    if !panicked {
        // G3: return to baseline
        for (k, &c) in r.end_counts.iter().enumerate() {
            let expect = if lazy_roots { if k == 0 { None } else { Some(r.end_counts[k - 1]) } } else { Some(r.baseline) };
            if let Some(e) = expect {
                if k > 0 && lazy_roots && k == 1 {
                    // rep 1 vs rep 0 may still differ when rep 0 memoised lazily; compare from rep 2 on
                    continue;
                }
                if c != e {
                    r.failures.push(("G3".into(), "baseline-not-restored".into(), format!("objects after rep {k} + drop + gc = {c}, expected {e} (baseline {}; counts {:?})", r.baseline, r.end_counts)));
                    break;
                }
            }
        }
        // G4: the decider is really in charge
        let s = sched.borrow();
        let gc_runs = ex.ctx.program.verif_gc_runs() - gc_runs0;
        let heur = ex.ctx.program.verif_heuristic_gc_runs() - heur0;
        let gc_now = ex.ctx.cb.cb_gc_kinds.get("native-gcNow").copied().unwrap_or(0);
        let expect = s.collected.len() as u64 + ex.explicit_gcs + ex.ctx.cb.cb_gc_done.len() as u64 + gc_now + heur;
        if gc_runs != expect {
            r.failures.push(("G4".into(), "gc-run-count".into(), format!("{gc_runs} collections ran, schedule accounts for {expect} (decider {} explicit {} callback {} gcNow {gc_now} heuristic {heur})", s.collected.len(), ex.explicit_gcs, ex.ctx.cb.cb_gc_done.len())));
        }
        if !matches!(spec.mode, SchedMode::Heuristic) && heur != 0 {
            r.failures.push(("G4".into(), "heuristic-bypassed-decider".into(), format!("{heur} heuristic collections ran although the decider answered every point")));
        }
        r.heuristic_gcs = heur;
    }
    if let Ok(s) = sched.try_borrow() {
        r.steps = s.stats.steps;
        r.sched_stats = s.stats.clone();
        r.collected = s.collected.clone();
    }
    r.traces = std::mem::take(&mut ex.ctx.cb.traces);
    r.cb_log = std::mem::take(&mut ex.ctx.cb.cb_log);
    r.cb_gc_done = ex.ctx.cb.cb_gc_done.clone();
    r.cb_gc_kinds = ex.ctx.cb.cb_gc_kinds.clone();
    r.cb_kinds = ex.ctx.cb.cb_kinds.clone();
    r.nested_evals = ex.ctx.cb.nested_evals;
    r.nested_swallowed = ex.ctx.cb.nested_failures_swallowed;
    r.touched = ex.ctx.cb.touched.clone();
    ex.ctx.remove_sched();
    r
}

// ---------------------------------------------------------------------------
// oracle

#[derive(Clone, Debug)]
pub struct Failure {
    pub invariant: String,
    pub class: String,
    pub detail: String,
    pub observed: Json,
    pub expected: Json,
}

/// Compares a scheduled run with the reference (`never`) run of the same scenario.
pub fn judge(reference: &RunResult, run: &RunResult) -> Option<Failure> {
    if reference.over_budget || run.over_budget {
        return None;
    }
    if let Some((inv, class, detail)) = run.failures.first() {
        return Some(Failure { invariant: inv.clone(), class: class.clone(), detail: detail.clone(), observed: Json::str(detail), expected: Json::str("invariant holds") });
    }
    // G1 invisibility
    for (i, (a, b)) in reference.outs.iter().zip(run.outs.iter()).enumerate() {
        if a != b {
            let what = match (a, b) {
                (Out::Err { kind: k1, payload: p1, trace: t1 }, Out::Err { kind: k2, payload: p2, trace: t2 }) if k1 == k2 && p1 == p2 && t1 != t2 => "stack-trace-differs",
                _ => "outcome-differs",
            };
            return Some(Failure { invariant: "G1".into(), class: what.into(), detail: format!("request #{i} (counting repetitions): never-collect run gave {}, scheduled run gave {}", a.short(), b.short()), observed: b.to_json(), expected: a.to_json() });
        }
    }
    if reference.outs.len() != run.outs.len() {
        return Some(Failure { invariant: "G1".into(), class: "outcome-count-differs".into(), detail: format!("{} outcomes vs {}", reference.outs.len(), run.outs.len()), observed: Json::Null, expected: Json::Null });
    }
    if reference.traces != run.traces {
        return Some(Failure { invariant: "G1".into(), class: "trace-messages-differ".into(), detail: "sequence of std.trace messages differs".into(), observed: Json::Arr(run.traces.iter().map(Json::str).collect()), expected: Json::Arr(reference.traces.iter().map(Json::str).collect()) });
    }
    if reference.cb_log != run.cb_log {
        return Some(Failure { invariant: "G1".into(), class: "callback-sequence-differs".into(), detail: "sequence of callback invocations differs".into(), observed: Json::Arr(run.cb_log.iter().map(Json::str).collect()), expected: Json::Arr(reference.cb_log.iter().map(Json::str).collect()) });
    }
    if reference.end_counts != run.end_counts || reference.baseline != run.baseline {
        return Some(Failure { invariant: "G3".into(), class: "end-counts-differ-from-reference".into(), detail: format!("object counts at quiescence {:?} (baseline {}) vs never-collect run {:?} (baseline {})", run.end_counts, run.baseline, reference.end_counts, reference.baseline), observed: Json::Null, expected: Json::Null });
    }
    None
}

/// Full check of (scenario, schedule): reference run + scheduled run.
pub fn check(sc: &Scenario, spec: &SchedSpec, sched_seed: u64) -> (RunResult, RunResult, Option<Failure>) {
    let reference = run_scenario(sc, &SchedSpec::never(), sched_seed);
    if let Some((inv, class, detail)) = reference.failures.first() {
        let f = Failure { invariant: inv.clone(), class: format!("ref:{class}"), detail: format!("(no collections scheduled) {detail}"), observed: Json::str(detail), expected: Json::str("invariant holds") };
        let empty = RunResult::default();
        return (reference, empty, Some(f));
    }
    let run = run_scenario(sc, spec, sched_seed);
    let f = judge(&reference, &run);
    (reference, run, f)
}

/// The schedule as actually executed, in explicit form (what replay files hold).
pub fn explicit_spec(spec: &SchedSpec, run: &RunResult) -> SchedSpec {
    let mode = match &spec.mode {
        SchedMode::Heuristic => SchedMode::Heuristic,
        _ => SchedMode::Explicit(run.collected.iter().copied().collect()),
    };
    let audit = match spec.audit {
        AuditMode::All => AuditMode::All,
        AuditMode::None => AuditMode::None,
        _ => AuditMode::AtCollect,
    };
    SchedSpec { mode, audit, cb_gc: if run.cb_gc_done.is_empty() { CbGc::Never } else { CbGc::Explicit(run.cb_gc_done.iter().copied().collect()) } }
}

pub fn to_violation(sc: &Scenario, spec: &SchedSpec, f: &Failure, run_index: u64, touched: &BTreeSet<String>, log: &str, minimised: bool) -> Violation {
    let only = if sc.origin.starts_with("corpus:") { Some(touched) } else { None };
    Violation {
        property: "C03".into(),
        engine: "sim-gc".into(),
        invariant: f.invariant.clone(),
        class: f.class.clone(),
        detail: f.detail.clone(),
        run_index,
        scenario: scenario_to_json(sc, spec, only),
        observed: f.observed.clone(),
        expected: f.expected.clone(),
        event_log_sha256: crate::util::sha256_hex(log.as_bytes()),
        minimised,
    }
}

// ---------------------------------------------------------------------------
// minimisation

pub fn minimise(sc: &Scenario, spec: &SchedSpec, class: &str, seed: u64) -> (Scenario, SchedSpec) {
    let start = std::time::Instant::now();
    let mut budget = 400usize;
    let mut sc = sc.clone();
    let mut spec = spec.clone();
    let fails = |sc: &Scenario, spec: &SchedSpec| -> bool { matches!(check(sc, spec, seed).2, Some(f) if f.class == class) };
    if sc.repeat > 1 {
        let mut s2 = sc.clone();
        s2.repeat = 1;
        budget -= 1;
        if fails(&s2, &spec) {
            sc = s2;
        }
    }
    // collection points
    if let SchedMode::Explicit(set) = &spec.mode {
        let pts: Vec<u64> = set.iter().copied().collect();
        let sc2 = sc.clone();
        let spec2 = spec.clone();
        let min = crate::util::ddmin(&pts, &mut budget, |cand| {
            let mut s = spec2.clone();
            s.mode = SchedMode::Explicit(cand.iter().copied().collect());
            fails(&sc2, &s)
        });
        spec.mode = SchedMode::Explicit(min.into_iter().collect());
    }
    if let CbGc::Explicit(set) = &spec.cb_gc {
        let pts: Vec<u64> = set.iter().copied().collect();
        let sc2 = sc.clone();
        let spec2 = spec.clone();
        let min = crate::util::ddmin(&pts, &mut budget, |cand| {
            let mut s = spec2.clone();
            s.cb_gc = if cand.is_empty() { CbGc::Never } else { CbGc::Explicit(cand.iter().copied().collect()) };
            fails(&sc2, &s)
        });
        spec.cb_gc = if min.is_empty() { CbGc::Never } else { CbGc::Explicit(min.into_iter().collect()) };
    }
    // requests (step ordinals shift, so only accepted when the failure persists under the same explicit schedule)
    {
        let ops = sc.ops.clone();
        let sc2 = sc.clone();
        let spec2 = spec.clone();
        let min = crate::util::ddmin(&ops, &mut budget, |cand| {
            let mut s = sc2.clone();
            s.ops = cand.to_vec();
            fails(&s, &spec2)
        });
        sc.ops = min;
    }
    // program trees
    let names: Vec<String> = sc.nodes.keys().cloned().collect();
    for name in names {
        let mut k = 0;
        while budget > 0 && start.elapsed().as_secs() < 60 {
            let node = sc.nodes[&name].clone();
            let Some(cand) = node.shrink(k) else { break };
            let mut s2 = sc.clone();
            let mut files = (*s2.world.files).clone();
            files.insert(name.clone(), cand.print().into_bytes());
            s2.world.files = Arc::new(files);
            s2.nodes.insert(name.clone(), cand);
            budget -= 1;
            if fails(&s2, &spec) {
                sc = s2;
            } else {
                k += 1;
            }
        }
    }
    (sc, spec)
}

// ---------------------------------------------------------------------------
// batch

#[derive(Default)]
pub struct Batch {
    pub scenarios: u64,
    pub runs: u64,
    pub steps: u64,
    pub discarded: u64,
    pub single_point_runs: u64,
    pub single_point_scenarios: u64,
    pub violations: Vec<Violation>,
    pub probes: BTreeMap<String, u64>,
    pub families: BTreeMap<String, u64>,
    pub samples: Vec<Json>,
    pub distinct_nontrivial: usize,
    pub state_kinds_seen: usize,
    pub state_kinds_collected_after: usize,
    pub determinism_reexecuted: u64,
    pub determinism_mismatches: u64,
    pub corpus_used: u64,
    pub corpus_skipped: u64,
    pub audits: u64,
    pub hashes: Vec<u64>,
}

struct OneResult {
    runs: u64,
    steps: u64,
    discarded: bool,
    single_point_runs: u64,
    probes: BTreeMap<String, u64>,
    family: String,
    failure: Option<Violation>,
    sample: Option<Json>,
    nontrivial_sigs: Vec<u64>,
    kinds_seen: BTreeSet<u64>,
    kinds_collected: BTreeSet<u64>,
    log_hash: u64,
    /// digests of the program-visible outcomes (requests, trace messages, callbacks) of the reference and the scheduled run
    ref_digest: u64,
    run_digest: u64,
    collections_total: u64,
    scenario_json: Option<Json>,
    audits: u64,
}

const MAX_STEPS: u64 = 60_000;

fn draw_spec(rng: &mut Rng, ref_steps: u64, ref_cost: u64) -> (SchedSpec, String) {
    let heavy = ref_cost > 30_000_000;
    let mode = loop {
        let m = match rng.below(12) {
            0 | 1 => SchedMode::Every,
            2 => SchedMode::Period(*rng.pick(&[2, 3, 5, 7, 16, 64])),
            3 => SchedMode::Bernoulli(*rng.pick(&[500, 100, 10])),
            4 => {
                let start = rng.below(ref_steps.max(1));
                SchedMode::Burst { start, len: 1 + rng.below(12) }
            }
            5 | 6 => SchedMode::AfterGrowth,
            7 => SchedMode::Heuristic,
            8 => SchedMode::Bernoulli(10),
            9 => SchedMode::Period(64),
            _ => {
                // a few random single points
                let n = 1 + rng.below(3);
                SchedMode::Explicit((0..n).map(|_| rng.below(ref_steps.max(1))).collect())
            }
        };
        if heavy && matches!(m, SchedMode::Every | SchedMode::Period(2..=16) | SchedMode::Bernoulli(100..=1000) | SchedMode::AfterGrowth) {
            continue;
        }
        break m;
    };
    let audit = if heavy { AuditMode::AtCollect } else { match rng.below(4) { 0 => AuditMode::All, 1 => AuditMode::AtCollect, _ => AuditMode::Sample } };
    let audit = if matches!(mode, SchedMode::Heuristic) { AuditMode::None } else { audit };
    let cb_gc = match rng.below(4) { 0 => CbGc::Bernoulli(500), 1 => CbGc::Bernoulli(100), _ => CbGc::Never };
    let name = sched_mode_name(&mode);
    (SchedSpec { mode, audit, cb_gc }, name)
}

fn collect_probes(p: &mut BTreeMap<String, u64>, run: &RunResult) {
    let s = &run.sched_stats;
    bump_by(p, "collections", s.collections);
    bump_by(p, "collections_freeing", s.collections_freeing);
    bump_by(p, "collections_freeing_mid_evaluation", s.collections_freeing_mid_eval);
    bump_by(p, "objects_freed_by_scheduled_collections", s.objects_freed);
    bump_by(p, "collection_with_object_stack_nonempty", s.with_object_stack);
    bump_by(p, "collection_with_array_stack_nonempty", s.with_array_stack);
    bump_by(p, "collection_with_comp_spec_stack_nonempty", s.with_comp_spec_stack);
    bump_by(p, "collection_with_byte_array_stack_nonempty", s.with_byte_array_stack);
    bump_by(p, "collection_with_cmp_ord_stack_nonempty", s.with_cmp_ord_stack);
    bump_by(p, "collection_with_string_stack_nonempty", s.with_string_stack);
    bump_by(p, "heuristic_collections", run.heuristic_gcs);
    bump_by(p, "reentrant_evaluations", run.nested_evals);
    bump_by(p, "reentrant_evaluation_failed_and_outer_continued", run.nested_swallowed);
    for (k, v) in &run.cb_gc_kinds {
        bump_by(p, &format!("collection_inside_callback:{k}"), *v);
    }
    for (k, v) in &run.cb_kinds {
        bump_by(p, &format!("callback_invocations:{k}"), *v);
    }
    if run.outs.iter().any(|o| matches!(o, Out::Err { .. })) {
        bump(p, "runs_with_failing_request");
    }
    if run.outs.iter().any(|o| matches!(o, Out::Err { kind, .. } if kind == "StackOverflow")) {
        bump(p, "runs_with_stack_overflow");
    }
}

fn one_run(root: u64, i: u64, corpus: &Corpus, enumerate: bool, want_sample: bool) -> OneResult {
    one_run_opt(root, i, corpus, enumerate, want_sample, false)
}

fn one_run_opt(root: u64, i: u64, corpus: &Corpus, enumerate: bool, want_sample: bool, keep_scenario: bool) -> OneResult {
    let seed = crate::rng::run_seed(root, "sim-gc", i);
    let mut srng = Rng::stream(seed, "sched");
    let use_corpus = !corpus.entries.is_empty() && i % 4 == 3;
    let sc = if use_corpus { corpus_scenario(corpus, (i / 4) as usize) } else { gen_scenario(seed) };
    let mut res = OneResult { runs: 1, steps: 0, discarded: false, single_point_runs: 0, probes: BTreeMap::new(), family: String::new(), failure: None, sample: None, nontrivial_sigs: Vec::new(), kinds_seen: BTreeSet::new(), kinds_collected: BTreeSet::new(), log_hash: 0, audits: 0, ref_digest: 0, run_digest: 0, collections_total: 0, scenario_json: None };
    if use_corpus {
        bump(&mut res.probes, "corpus_scenarios");
    }
    let reference = run_scenario(&sc, &SchedSpec::never(), seed);
    if reference.over_budget {
        res.discarded = true;
        bump(&mut res.probes, "discarded_step_budget");
        return res;
    }
    if !use_corpus {
        for (op, out) in sc.ops.iter().zip(reference.outs.iter()) {
            if matches!(op.req, Req::Eval { .. } | Req::Top { .. } | Req::Call { .. }) {
                bump(&mut res.probes, &format!("generated_request_outcome:{}", out.kind_name()));
            }
        }
    }
    res.steps += reference.steps;
    if let Some((inv, class, detail)) = reference.failures.first() {
        let f = Failure { invariant: inv.clone(), class: format!("ref:{class}"), detail: format!("(no collections scheduled) {detail}"), observed: Json::str(detail), expected: Json::str("invariant holds") };
        if crate::util::claim_minimisation(&f.class) {
            let (msc, mspec) = minimise(&sc, &SchedSpec::never(), &f.class, seed);
            if let (mref, _, Some(mf)) = check(&msc, &mspec, seed) {
                if mf.class == f.class {
                    res.failure = Some(to_violation(&msc, &mspec, &mf, i, &mref.touched, &mref.log, true));
                    return res;
                }
            }
        }
        res.failure = Some(to_violation(&sc, &SchedSpec::never(), &f, i, &reference.touched, &reference.log, false));
        return res;
    }
    if reference.steps > MAX_STEPS || reference.over_budget {
        res.discarded = true;
        return res;
    }
    let scen_hash = crate::rng::fnv1a64(&format!("{:?}{:?}", sc.ops, sc.world.files.iter().filter(|(k, _)| reference.touched.contains(*k)).collect::<Vec<_>>()));
    let avg_objs = reference.baseline as u64 + 200;
    let (spec, family) = draw_spec(&mut srng, reference.steps, reference.steps * avg_objs);
    res.family = family;
    let run = run_scenario(&sc, &spec, seed);
    res.runs += 1;
    res.steps += run.steps;
    res.audits += run.audits;
    collect_probes(&mut res.probes, &run);
    res.kinds_seen = run.sched_stats.state_kinds_seen.clone();
    res.kinds_collected = run.sched_stats.state_kinds_collected_after.clone();
    if run.sched_stats.collections_freeing_mid_eval > 0 {
        res.nontrivial_sigs.push(scen_hash ^ crate::rng::fnv1a64(&format!("{:?}", run.collected)));
    }
    res.log_hash = crate::rng::fnv1a64(&format!("{}|{}|{:?}", reference.log, run.log, run.collected));
    let digest = |r: &RunResult| crate::rng::fnv1a64(&format!("{:?}|{:?}|{:?}|{:?}", r.outs, r.traces, r.cb_log, r.end_counts));
    res.ref_digest = digest(&reference);
    res.run_digest = digest(&run);
    res.collections_total = run.sched_stats.collections + run.cb_gc_done.len() as u64 + run.heuristic_gcs + run.cb_gc_kinds.get("native-gcNow").copied().unwrap_or(0) + sc.ops.iter().filter(|o| matches!(o.req, Req::Gc)).count() as u64;
    if want_sample || keep_scenario {
        res.scenario_json = Some(scenario_to_json(&sc, &explicit_spec(&spec, &run), Some(&run.touched)));
    }
    if want_sample {
        res.sample = Some(Json::obj(vec![
            ("run", Json::Num(i as f64)),
            ("scenario", scenario_to_json(&sc, &explicit_spec(&spec, &run), Some(&run.touched))),
            ("schedule_family", Json::str(&res.family)),
            ("evaluator_steps", Json::Num(run.steps as f64)),
            ("collections", Json::Num(run.sched_stats.collections as f64)),
            ("outcomes", Json::Arr(run.outs.iter().take(6).map(|o| Json::str(o.short())).collect())),
        ]));
    }
    if let Some(f) = judge(&reference, &run) {
        let espec = explicit_spec(&spec, &run);
        // confirm with the explicit schedule, then minimise
        let (msc, mspec, mf, mrun) = match check(&sc, &espec, seed) {
            (_, r2, Some(f2)) if f2.class == f.class && !crate::util::claim_minimisation(&f.class) => (sc.clone(), espec.clone(), f2, r2),
            (_, _, Some(f2)) if f2.class == f.class => {
                let (msc, mspec) = minimise(&sc, &espec, &f.class, seed);
                match check(&msc, &mspec, seed) {
                    (_, r, Some(f3)) if f3.class == f.class => (msc, mspec, f3, r),
                    _ => (sc.clone(), espec.clone(), f2, run_scenario(&sc, &espec, seed)),
                }
            }
            _ => (sc.clone(), spec.clone(), f.clone(), run_scenario(&sc, &spec, seed)),
        };
        let minimised = msc.ops.len() < sc.ops.len() || format!("{:?}", mspec.mode) != format!("{:?}", espec.mode);
        res.failure = Some(to_violation(&msc, &mspec, &mf, i, &mrun.touched, &mrun.log, minimised));
        return res;
    }
    // single-point enumeration: exactly one collection at every step s
    if enumerate && reference.steps <= 400 && reference.steps > 0 {
        for s in 0..reference.steps {
            let sp = SchedSpec { mode: SchedMode::Explicit([s].into_iter().collect()), audit: AuditMode::AtCollect, cb_gc: CbGc::Never };
            let run = run_scenario(&sc, &sp, seed);
            res.single_point_runs += 1;
            res.steps += run.steps;
            res.audits += run.audits;
            collect_probes(&mut res.probes, &run);
            res.kinds_collected.extend(run.sched_stats.state_kinds_collected_after.iter().copied());
            if run.sched_stats.collections_freeing_mid_eval > 0 {
                res.nontrivial_sigs.push(scen_hash ^ crate::rng::fnv1a64(&format!("single:{s}")));
            }
            if let Some(f) = judge(&reference, &run) {
                if !crate::util::claim_minimisation(&f.class) {
                    res.failure = Some(to_violation(&sc, &sp, &f, i, &run.touched, &run.log, false));
                    return res;
                }
                let (msc, mspec) = minimise(&sc, &sp, &f.class, seed);
                let (_, mrun, mf) = check(&msc, &mspec, seed);
                match mf {
                    Some(mf) if mf.class == f.class => res.failure = Some(to_violation(&msc, &mspec, &mf, i, &mrun.touched, &mrun.log, true)),
                    _ => res.failure = Some(to_violation(&sc, &sp, &f, i, &run.touched, &run.log, false)),
                }
                return res;
            }
        }
    }
    res
}

pub fn batch(root: u64, scenarios: u64, enumerate_every: u64, workers: usize, corpus: &Corpus) -> Batch {
    let mut b = Batch { scenarios, corpus_skipped: corpus.skipped as u64, ..Default::default() };
    let mut sigs: std::collections::HashSet<u64> = std::collections::HashSet::new();
    let mut seen = BTreeSet::new();
    let mut coll = BTreeSet::new();
    let mut classes: BTreeSet<String> = BTreeSet::new();
    let keep_hashes = std::env::var("VERIF_HASH_DUMP").is_ok();
    let step = (scenarios / 64).max(1);
    let mut sampled: Vec<(u64, u64, u64, u64)> = Vec::new();
    const CHUNK: u64 = 20_000;
    // VERIF_START=<i> (debugging aid): begin at scenario i
    let mut base = std::env::var("VERIF_START").ok().and_then(|s| s.parse().ok()).unwrap_or(0u64);
    while base < scenarios {
        let n = CHUNK.min(scenarios - base);
        let results = crate::util::run_pool(n, workers, |k| {
            let i = base + k;
            one_run(root, i, corpus, enumerate_every > 0 && i % enumerate_every == 0, i < 3)
        });
        for (k, r) in results.iter().enumerate() {
            let i = base + k as u64;
            if keep_hashes {
                b.hashes.push(r.log_hash);
            }
            if i % step == 0 && r.failure.is_none() && !r.discarded && sampled.len() < 64 {
                sampled.push((i, r.log_hash, r.ref_digest, r.run_digest));
            }
            b.runs += r.runs + r.single_point_runs;
            b.steps += r.steps;
            b.audits += r.audits;
            if r.discarded {
                b.discarded += 1;
            }
            b.single_point_runs += r.single_point_runs;
            if r.single_point_runs > 0 {
                b.single_point_scenarios += 1;
            }
            crate::util::merge_counts(&mut b.probes, &r.probes);
            if !r.family.is_empty() {
                bump(&mut b.families, &r.family);
            }
            sigs.extend(r.nontrivial_sigs.iter().copied());
            seen.extend(r.kinds_seen.iter().copied());
            coll.extend(r.kinds_collected.iter().copied());
            if let Some(s) = &r.sample {
                b.samples.push(s.clone());
            }
            if let Some(v) = &r.failure {
                if classes.insert(v.class.clone()) || b.violations.len() < 50 {
                    b.violations.push(v.clone());
                }
            }
        }
        base += n;
    }
    b.corpus_used = b.probes.get("corpus_scenarios").copied().unwrap_or(0);
    b.distinct_nontrivial = sigs.len();
    b.state_kinds_seen = seen.len();
    b.state_kinds_collected_after = coll.len();
    // determinism sample: re-execute up to 64 runs (single-threaded) and compare event-log hashes
    for (i, h, ref_d, run_d) in sampled {
        let again = one_run_opt(root, i, corpus, false, false, true);
        b.determinism_reexecuted += 1;
        if let Some(v) = again.failure {
            // the second execution of the same scenario violates an invariant: that is a violation of the property
            // (e.g. outcomes that depend on addresses), not a harness problem
            b.violations.push(v);
        } else if again.log_hash != h {
            // two executions of the same scenario under the same schedule differ. If what differs is the
            // program-visible outcome and collections ran, the outcome depends on something a collection changes
            // (addresses, liveness): a violation of invisibility. Otherwise it is the harness (or uncontrolled
            // nondeterminism unrelated to collection): exit 2.
            let outcome_differs = again.ref_digest != ref_d || again.run_digest != run_d;
            if outcome_differs && again.collections_total > 0 {
                b.violations.push(Violation {
                    property: "C03".into(),
                    engine: "sim-gc".into(),
                    invariant: "G1".into(),
                    class: "outcome-differs-between-two-executions-of-the-same-schedule".into(),
                    detail: format!("scenario {i}: two executions of the same scenario under the same collection schedule give different request outcomes ({} of them with the scheduled collections, {} without) although nothing but collection timing and memory addresses can differ", if again.run_digest != run_d { "the run" } else { "not the run" }, if again.ref_digest != ref_d { "also the run" } else { "not the run" }),
                    run_index: i,
                    scenario: again.scenario_json.clone().unwrap_or(Json::Null),
                    observed: Json::str(format!("outcome digests {:016x}/{:016x} vs {:016x}/{:016x}", ref_d, run_d, again.ref_digest, again.run_digest)),
                    expected: Json::str("identical outcomes"),
                    event_log_sha256: String::new(),
                    minimised: false,
                });
            } else {
                eprintln!("determinism mismatch at scenario {i}: outcome_differs={outcome_differs} collections={} ref {ref_d:x}/{:x} run {run_d:x}/{:x}", again.collections_total, again.ref_digest, again.run_digest);
                b.determinism_mismatches += 1;
            }
        }
    }
    b
}

pub fn replay(scenario: &Json) -> Result<Option<Violation>, String> {
    let (sc, spec) = scenario_from_json(scenario).ok_or("bad sim-gc scenario")?;
    // executed several times: outcomes that depend on memory addresses need not differ in every execution
    let mut digests: Vec<u64> = Vec::new();
    for _ in 0..6 {
        let (_, run, f) = check(&sc, &spec, 0);
        if let Some(f) = f {
            return Ok(Some(to_violation(&sc, &spec, &f, 0, &run.touched, &run.log, true)));
        }
        digests.push(crate::rng::fnv1a64(&format!("{:?}|{:?}|{:?}|{:?}", run.outs, run.traces, run.cb_log, run.end_counts)));
    }
    if digests.iter().any(|d| *d != digests[0]) {
        let f = Failure { invariant: "G1".into(), class: "outcome-differs-between-two-executions-of-the-same-schedule".into(), detail: "six executions of this scenario under its schedule do not all give the same outcomes".into(), observed: Json::str(format!("{digests:x?}")), expected: Json::str("identical outcomes") };
        return Ok(Some(to_violation(&sc, &spec, &f, 0, &BTreeSet::new(), "", true)));
    }
    Ok(None)
}

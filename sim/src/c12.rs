//! C12 — the CLI's exit status, streams and output modes form one contract.
//! Worlds, reference model (M1..M9), fault placement over the recorded I/O
//! trace and invariants I1..I6.

use std::collections::BTreeMap;

use crate::cliworld::{run_world, Entry, LogLine, Rule, RunOut, StdoutKind, World};
use crate::json::{self, Json};
use crate::rng::Rng;
use crate::util::{bump, Violation};

#[derive(Clone, Debug, PartialEq)]
pub enum InputKind {
    File,
    Exec,
    Stdin,
}

#[derive(Clone, Debug)]
pub struct Mode {
    pub s: bool,
    pub y: bool,
    pub m: Option<String>,
    pub o: Option<String>,
    pub nonl: bool,
    pub input: InputKind,
}

#[derive(Clone, Debug, PartialEq)]
pub enum Expect {
    /// exit 0 with the manifestation of `value`
    Ok,
    /// exit `code`, nothing on stdout / in -o
    Fail(i32, String),
}

#[derive(Clone, Debug)]
pub struct C12World {
    pub world: World,
    pub value: Json,
    pub mode: Mode,
    pub expect: Expect,
    /// pre-existing content of the -o file (must survive failures that are not write faults)
    pub o_before: Option<Vec<u8>>,
    pub program: String,
}

pub fn canon(v: &Json) -> Json {
    match v {
        Json::Arr(a) => Json::Arr(a.iter().map(canon).collect()),
        Json::Obj(o) => {
            let mut f: Vec<(String, Json)> = o.iter().map(|(k, v)| (k.clone(), canon(v))).collect();
            f.sort_by(|a, b| a.0.cmp(&b.0));
            Json::Obj(f)
        }
        other => other.clone(),
    }
}

pub fn json_eq(a: &Json, b: &Json) -> bool {
    canon(a) == canon(b)
}

// ---------------------------------------------------------------------------
// generation

const STR_PIECES: &[&str] = &["a", "b c", "é", "日本", "🙂", "\"", "\\", "\n", "=", "k=v", "<>&", "'", "\t", "%s", "0", "-", "{}", "$x", "\r\n", " ", "\u{1}", "\u{19}", "\u{1a}", "\u{1f}", "\u{7f}", "\u{80}", "\u{9f}", "\u{2028}"];
const SAFE_KEYS: &[&str] = &["a", "b", "f1", "out.json", "x-y", "Z_9", "c.txt"];
const ANY_KEYS: &[&str] = &["a", "b", "f1", "with space", "quo\"te", "é", "new\nline", "", "k=v", "z"];

fn gen_string(rng: &mut Rng, big: bool) -> String {
    if big && rng.chance(1, 3) {
        let unit = *rng.pick(&["xyz ", "0123456789", "é🙂\n"]);
        return unit.repeat(1000 + rng.usize_below(3000));
    }
    let n = rng.usize_below(5);
    (0..n).map(|_| *rng.pick(STR_PIECES)).collect()
}

fn gen_num(rng: &mut Rng) -> f64 {
    match rng.below(8) {
        0 => 0.0,
        1 => 9007199254740991.0,
        2 => -9007199254740991.0,
        3 => *rng.pick(&[0.5, 1.25, -2.75, 0.001, 1e-7, 123456.789, 1e21]),
        4 => -(rng.below(1000) as f64),
        _ => rng.below(100000) as f64,
    }
}

pub fn gen_value(rng: &mut Rng, depth: u32, big: bool) -> Json {
    let top = if depth >= 4 { 5 } else { 8 };
    match rng.below(top) {
        0 => Json::Null,
        1 => Json::Bool(rng.chance(1, 2)),
        2 => Json::Num(gen_num(rng)),
        3 | 4 => Json::Str(gen_string(rng, big)),
        5 | 6 => {
            let n = rng.usize_below(4);
            Json::Arr((0..n).map(|_| gen_value(rng, depth + 1, big)).collect())
        }
        _ => gen_object(rng, depth, big, ANY_KEYS, None),
    }
}

#[derive(Clone, Copy, PartialEq)]
enum FieldKind {
    Any,
    Str,
    Arr,
}

fn gen_object(rng: &mut Rng, depth: u32, big: bool, keys: &[&str], kind: Option<FieldKind>) -> Json {
    let n = rng.usize_below(4) + usize::from(kind.is_some());
    let mut fields: Vec<(String, Json)> = Vec::new();
    for _ in 0..n {
        let k = (*rng.pick(keys)).to_string();
        if fields.iter().any(|(f, _)| *f == k) {
            continue;
        }
        let v = match kind {
            Some(FieldKind::Str) => Json::Str(gen_string(rng, big)),
            Some(FieldKind::Arr) => Json::Arr((0..rng.usize_below(3)).map(|_| gen_value(rng, depth + 2, false)).collect()),
            _ => gen_value(rng, depth + 1, big),
        };
        fields.push((k, v));
    }
    Json::Obj(fields)
}

struct Emit<'a> {
    rng: &'a mut Rng,
    files: Vec<(String, Vec<u8>)>,
    args: Vec<String>,
    env: Vec<(String, String)>,
    counter: u32,
    budget: u32,
    used_kinds: Vec<&'static str>,
    taken: Vec<String>,
}

impl Emit<'_> {
    fn fresh(&mut self, p: &str) -> String {
        self.counter += 1;
        // external variables and top-level arguments live in separate namespaces: now and then an external variable
        // takes the name of a top-level parameter (p0 / p1)
        if (p == "e" || p == "c" || p == "cf") && self.rng.chance(1, 4) {
            for cand in ["p0", "p1"] {
                if !self.taken.iter().any(|t| t == cand) {
                    self.taken.push(cand.to_string());
                    return cand.to_string();
                }
            }
        }
        // names of external variables are arbitrary strings, not identifiers: now and then one with 2-/3-/4-byte
        // characters, a dash or a dot (everything up to the first '=' is the name, byte for byte)
        if (p == "e" || p == "c" || p == "cf") && self.rng.chance(1, 4) {
            let deco = *self.rng.pick(&["é", "日本", "ü-", "x.", "π_", "🙂", "a é"]);
            return if self.rng.chance(1, 2) { format!("{deco}{p}{}", self.counter) } else { format!("{p}{}{deco}", self.counter) };
        }
        format!("{p}{}", self.counter)
    }

    fn lit(v: &Json) -> String {
        match v {
            Json::Str(s) => {
                let mut out = String::new();
                json::write_str(&mut out, s);
                out
            }
            Json::Num(n) if *n < 0.0 => format!("({})", Json::Num(*n).to_string()),
            other => other.to_string(),
        }
    }

    fn bind_str(&mut self, s: &str) -> Option<String> {
        // strings travel byte-exact through argv / env / files (no NUL)
        if s.contains('\0') {
            return None;
        }
        let k = self.fresh("e");
        match self.rng.below(5) {
            0 => {
                self.args.push("--ext-str".into());
                self.args.push(format!("{k}={s}"));
                self.used_kinds.push("ext-str");
            }
            1 => {
                self.args.push("-V".into());
                self.args.push(format!("{k}={s}"));
                self.used_kinds.push("ext-str-V");
            }
            2 => {
                self.args.push("-V".into());
                self.args.push(k.clone());
                self.env.push((k.clone(), s.to_string()));
                self.used_kinds.push("ext-str-env");
            }
            3 => {
                let f = format!("lib/{k}.txt");
                self.files.push((f.clone(), s.as_bytes().to_vec()));
                self.args.push("--ext-str-file".into());
                self.args.push(format!("{k}={f}"));
                self.used_kinds.push("ext-str-file");
            }
            _ => {
                let mut code = String::new();
                json::write_str(&mut code, s);
                self.args.push("--ext-code".into());
                self.args.push(format!("{k}={code}"));
                self.used_kinds.push("ext-code");
            }
        }
        Some(format!("std.extVar(\"{k}\")"))
    }

    fn emit(&mut self, v: &Json, depth: u32) -> String {
        if self.budget > 0 && depth > 0 && self.rng.chance(1, 5) {
            self.budget -= 1;
            match (v, self.rng.below(4)) {
                (Json::Str(s), 0 | 1) if s.len() < 2000 => {
                    if let Some(e) = self.bind_str(s) {
                        return e;
                    }
                }
                (Json::Str(s), 2) => {
                    let f = self.fresh("s");
                    self.files.push((format!("lib/{f}.txt"), s.as_bytes().to_vec()));
                    self.used_kinds.push("importstr");
                    return format!("(importstr \"{f}.txt\")");
                }
                (_, 0) => {
                    let inner = self.emit_plain(v, depth + 1);
                    let k = self.fresh("c");
                    if inner.len() < 4000 {
                        self.args.push("--ext-code".into());
                        self.args.push(format!("{k}={inner}"));
                        self.used_kinds.push("ext-code");
                        return format!("std.extVar(\"{k}\")");
                    }
                }
                (_, 1) => {
                    let inner = self.emit_plain(v, depth + 1);
                    let k = self.fresh("cf");
                    let f = format!("lib/{k}.jsonnet");
                    self.files.push((f.clone(), inner.into_bytes()));
                    self.args.push("--ext-code-file".into());
                    self.args.push(format!("{k}={f}"));
                    self.used_kinds.push("ext-code-file");
                    return format!("std.extVar(\"{k}\")");
                }
                (_, 2) => {
                    let inner = self.emit_plain(v, depth + 1);
                    let f = self.fresh("p");
                    self.files.push((format!("lib/{f}.libsonnet"), inner.into_bytes()));
                    self.used_kinds.push("import");
                    return format!("(import \"{f}.libsonnet\")");
                }
                _ => {}
            }
        }
        self.emit_plain(v, depth)
    }

    fn emit_plain(&mut self, v: &Json, depth: u32) -> String {
        match v {
            Json::Arr(a) => {
                let items: Vec<String> = a.iter().map(|x| self.emit(x, depth + 1)).collect();
                format!("[{}]", items.join(", "))
            }
            Json::Obj(o) => {
                let mut parts: Vec<String> = Vec::new();
                for (k, x) in o {
                    let e = self.emit(x, depth + 1);
                    // `:::` (forced visible) fields are visible fields like any other
                    let vis = if self.rng.chance(1, 5) { ":::" } else { ":" };
                    parts.push(format!("{}{vis} {e}", Self::lit(&Json::Str(k.clone()))));
                }
                if self.rng.chance(1, 4) {
                    // hidden fields never reach the output (and are never evaluated)
                    parts.push("hidden_never:: error \"hidden field evaluated\"".into());
                }
                let obj = format!("{{ {} }}", parts.join(", "));
                // visibility through inheritance: hidden in the base, un-hidden (or re-stated) by the extension
                if !o.is_empty() && self.rng.chance(1, 6) {
                    let k = Self::lit(&Json::Str(o[0].0.clone()));
                    return format!("({{ {k}:: null }} + {obj} + {{ {k}::: super[{k}] }})");
                }
                obj
            }
            other => Self::lit(other),
        }
    }
}

pub fn gen_world(seed: u64) -> C12World {
    let mut rng = Rng::stream(seed, "world");
    let big = rng.chance(1, 10);
    let mut mode = Mode { s: rng.chance(1, 4), y: false, m: None, o: None, nonl: rng.chance(1, 3), input: match rng.below(4) { 0 => InputKind::Exec, 1 => InputKind::Stdin, _ => InputKind::File } };
    if !mode.s {
        mode.y = rng.chance(1, 4);
    }
    if rng.chance(1, 4) {
        mode.m = Some("m".into());
    }
    if rng.chance(1, 3) {
        mode.o = Some(if rng.chance(1, 4) { "outdir/res.out".into() } else { "res.out".into() });
    }
    let fk = if mode.s { FieldKind::Str } else if mode.y { FieldKind::Arr } else { FieldKind::Any };
    let mut value = if mode.m.is_some() {
        gen_object(&mut rng, 0, big, SAFE_KEYS, Some(fk))
    } else if mode.s {
        Json::Str(gen_string(&mut rng, big))
    } else if mode.y {
        Json::Arr((0..rng.usize_below(4)).map(|_| gen_value(&mut rng, 1, big)).collect())
    } else {
        gen_value(&mut rng, 0, big)
    };
    let mut tree: Vec<(String, Entry)> = vec![("lib".into(), Entry::Dir)];
    if mode.m.is_some() {
        tree.push(("m".into(), Entry::Dir));
    }
    let mut o_before = None;
    if let Some(o) = &mode.o {
        if o.starts_with("outdir/") {
            tree.push(("outdir".into(), Entry::Dir));
        }
        if rng.chance(1, 3) {
            o_before = Some(b"previous content\n".to_vec());
            tree.push((o.clone(), Entry::File(b"previous content\n".to_vec())));
        }
    }
    let mut em = Emit { rng: &mut rng, files: Vec::new(), args: Vec::new(), env: vec![("NO_COLOR".into(), "1".into())], counter: 0, budget: 4, used_kinds: Vec::new(), taken: Vec::new() };
    let mut body = em.emit(&value, 0);
    // top-level arguments
    let mut tla_args: Vec<String> = Vec::new();
    let use_tla = em.rng.chance(1, 3) && matches!(value, Json::Obj(_) | Json::Arr(_) | Json::Str(_));
    if use_tla {
        let x0 = gen_string(em.rng, false).replace('\0', "");
        let d1 = gen_string(em.rng, false);
        let give1 = em.rng.chance(1, 2);
        let x1 = if give1 { gen_string(em.rng, false) } else { d1.clone() };
        let x0 = if em.rng.chance(1, 6) { String::new() } else { x0 };
        match em.rng.below(4) {
            3 if !em.taken.iter().any(|t| t == "p0") => {
                // `-A name` without a value: taken from the environment
                tla_args.push(if em.rng.chance(1, 2) { "-A".into() } else { "--tla-str".into() });
                tla_args.push("p0".into());
                em.env.push(("p0".into(), x0.clone()));
            }
            0 => {
                tla_args.push("--tla-str".into());
                tla_args.push(format!("p0={x0}"));
            }
            1 => {
                tla_args.push("-A".into());
                tla_args.push(format!("p0={x0}"));
            }
            _ => {
                em.files.push(("lib/tla0.txt".into(), x0.as_bytes().to_vec()));
                tla_args.push("--tla-str-file".into());
                tla_args.push("p0=lib/tla0.txt".into());
            }
        }
        if give1 {
            match em.rng.below(2) {
                0 => {
                    tla_args.push("--tla-code".into());
                    tla_args.push(format!("p1={}", Emit::lit(&Json::Str(x1.clone()))));
                }
                _ => {
                    em.files.push(("lib/tla1.jsonnet".into(), Emit::lit(&Json::Str(x1.clone())).into_bytes()));
                    tla_args.push("--tla-code-file".into());
                    tla_args.push("p1=lib/tla1.jsonnet".into());
                }
            }
        }
        em.used_kinds.push("tla");
        // top-level arguments are lazy like everything else: an argument (and a default) that would fail, bound to a
        // parameter the body never uses, must not fail the run
        let lazy_arg = em.rng.chance(1, 3);
        let lazy_default = em.rng.chance(1, 3);
        if lazy_arg {
            if em.rng.chance(1, 2) {
                tla_args.push("--tla-code".into());
                tla_args.push("pz=error \"unused top-level argument evaluated\"".into());
            } else {
                em.files.push(("lib/tlaz.jsonnet".into(), b"error \"unused top-level argument file evaluated\"".to_vec()));
                tla_args.push("--tla-code-file".into());
                tla_args.push("pz=lib/tlaz.jsonnet".into());
            }
            em.used_kinds.push("unused-failing-tla-code");
        }
        let extra_params = format!("{}{}", if lazy_arg { ", pz=0" } else { "" }, if lazy_default { ", pd=error \"unused default evaluated\"" } else { "" });
        let d1l = Emit::lit(&Json::Str(d1));
        match &mut value {
            Json::Str(s) => {
                body = format!("function(p1={d1l}, p0{extra_params}) {body} + p0 + p1");
                s.push_str(&x0);
                s.push_str(&x1);
            }
            Json::Arr(a) => {
                body = format!("function(p0, p1={d1l}{extra_params}) {body} + [[p0, p1]]");
                a.push(Json::Arr(vec![Json::Str(x0), Json::Str(x1)]));
            }
            Json::Obj(o) => {
                let (extra, ev) = match fk {
                    FieldKind::Str => ("p0 + p1".to_string(), Json::Str(format!("{x0}{x1}"))),
                    _ => ("[p0, p1]".to_string(), Json::Arr(vec![Json::Str(x0), Json::Str(x1)])),
                };
                o.retain(|(k, _)| k != "tla_t");
                body = format!("function(p0, p1={d1l}{extra_params}) {body} + {{ tla_t: {extra} }}");
                o.push(("tla_t".into(), ev));
            }
            _ => unreachable!(),
        }
    }
    // an unused ext-code that would fail if evaluated (laziness)
    if em.rng.chance(1, 4) {
        em.args.push("--ext-code".into());
        em.args.push("unused_bad=error \"unused ext code evaluated\"".into());
        em.used_kinds.push("unused-failing-ext-code");
    }
    let mut expect = Expect::Ok;
    // deliberate mismatches (M8); half of them write to an -o file that already exists, so that a failing run
    // which touches the target is seen

    let mut extra_flags: Vec<String> = Vec::new();
    let mut drop_input = false;
    let mut exec_dash = false;
    let pick_mismatch = em.rng.chance(1, 6);
    let late = !pick_mismatch && !use_tla && matches!(value, Json::Obj(_) | Json::Arr(_)) && em.rng.chance(1, 8);
    let mut tries = 0;
    while (pick_mismatch || late) && expect == Expect::Ok && tries < 10 {
        tries += 1;
        // a kind that does not apply to this world is drawn again (the fallback takes over after a few draws)
        let kind = if late { if matches!(value, Json::Obj(_)) { 10 } else { 11 } } else if tries >= 9 { 9 } else { em.rng.below(15) };
        match kind {
            14 if mode.input == InputKind::Exec => {
                // `-e -`: the program text is a lone minus sign (a syntax error), NOT "read standard input"; something
                // that would evaluate fine waits on stdin
                exec_dash = true;
                expect = Expect::Fail(1, "-e with the program text `-`".into());
            }
            0 if !mode.s && !matches!(value, Json::Str(_)) && mode.m.is_none() => {
                mode.s = true;
                mode.y = false;
                expect = Expect::Fail(1, "-S on a non-string".into());
            }
            1 if !mode.y && !mode.s && !matches!(value, Json::Arr(_)) && mode.m.is_none() => {
                mode.y = true;
                expect = Expect::Fail(1, "-y on a non-array".into());
            }
            2 if mode.m.is_none() && !matches!(value, Json::Obj(_)) => {
                mode.m = Some("m".into());
                tree.push(("m".into(), Entry::Dir));
                expect = Expect::Fail(1, "-m on a non-object".into());
            }
            3 if !use_tla => {
                extra_flags.push(if em.rng.chance(1, 2) { "--tla-str".into() } else { "--tla-code".into() });
                extra_flags.push(format!("{}=1", em.rng.pick(&["zz", "zé", "日本", "é"])));
                expect = Expect::Fail(1, "TLA given but root is not a function".into());
            }
            4 => {
                body = format!("[{body}, std.extVar(\"no_such_var\")][0 + 1 - 1 + 1]");
                expect = Expect::Fail(1, "unknown ext var".into());
            }
            5 => {
                extra_flags.push(if mode.s { "-y".into() } else { "-S".into() });
                if !mode.s && !mode.y {
                    extra_flags.push("-y".into());
                }
                expect = Expect::Fail(2, "-S together with -y".into());
            }
            6 => {
                drop_input = true;
                expect = Expect::Fail(2, "missing filename".into());
            }
            7 => {
                extra_flags.push("--ext-str-file".into());
                extra_flags.push("novalue".into());
                expect = Expect::Fail(2, "malformed var=file".into());
            }
            8 => {
                body = format!("local v = {body}; if std.length(std.toString(v)) >= 0 then error \"planted failure\" else v");
                expect = Expect::Fail(1, "program raises an error".into());
            }
            10 if matches!(value, Json::Obj(_)) && !use_tla => {
                // the LAST field (in manifestation order) fails: nothing may have reached stdout / -o by then
                let bad = if mode.m.is_some() && mode.s && em.rng.chance(1, 2) { "123" } else { "error \"late field failure\"" };
                body = format!("{body} + {{ zzz_last: {bad} }}");
                expect = Expect::Fail(1, "last field fails late".into());
            }
            11 if matches!(value, Json::Arr(_)) && !use_tla => {
                // a function fails only when the element is MANIFESTED (evaluation is fine), an error already when evaluated
                let bad = if em.rng.chance(1, 3) { "error \"late element failure\"" } else if em.rng.chance(1, 2) { "function(x) x" } else { "{ ok: 1, f: function(x) x }" };
                body = format!("{body} + [{bad}]");
                expect = Expect::Fail(1, "last element fails late".into());
            }
            13 if mode.o.is_none() => {
                // a real unwritable target: the directory of the -o file does not exist
                extra_flags.push("-o".into());
                extra_flags.push("no_such_dir/res.out".into());
                expect = Expect::Fail(1, "-o into a missing directory".into());
            }
            12 => {
                extra_flags.push("--ext-str".into());
                let dup = *em.rng.pick(&["dup", "dé", "日本"]);
                extra_flags.push(format!("{dup}=1"));
                extra_flags.push(if em.rng.chance(1, 2) { "--ext-code".into() } else { "--ext-str".into() });
                extra_flags.push(format!("{dup}=2"));
                expect = Expect::Fail(1, "ext var defined twice".into());
            }
            9 => {
                extra_flags.push("--ext-str-file".into());
                extra_flags.push("gone=lib/does_not_exist.txt".into());
                expect = Expect::Fail(1, "ext-str-file missing".into());
            }
            _ => {}
        }
    }
    if expect == Expect::Ok && mode.input == InputKind::Exec && em.rng.chance(1, 10) {
        exec_dash = true;
        expect = Expect::Fail(1, "-e with the program text `-`".into());
    }
    let mut argv: Vec<String> = Vec::new();
    argv.push("-J".into());
    argv.push("lib".into());
    if mode.s {
        argv.push("-S".into());
    }
    if mode.y {
        argv.push("-y".into());
    }
    if let Some(m) = &mode.m {
        argv.push("-m".into());
        argv.push(m.clone());
    }
    if let Some(o) = &mode.o {
        argv.push("-o".into());
        argv.push(o.clone());
    }
    if mode.nonl {
        argv.push("--no-trailing-newline".into());
    }
    if em.rng.chance(1, 5) {
        argv.push(if em.rng.chance(1, 2) { "-s".into() } else { "--max-stack".into() });
        argv.push((*em.rng.pick(&["1000", "400", "250"])).to_string());
    }
    if em.rng.chance(1, 3) {
        // the trace budget shapes the diagnostic only: exit status and stdout never depend on it
        argv.push(if em.rng.chance(1, 2) { "-t".into() } else { "--max-trace".into() });
        argv.push((*em.rng.pick(&["0", "1", "2", "3", "4", "7", "100"])).to_string());
    }
    argv.extend(em.args.iter().cloned());
    argv.extend(tla_args);
    argv.extend(extra_flags);
    if em.rng.chance(1, 5) {
        // a variable that arrives through the ENVIRONMENT (`-V name` without a value) - also when it is the empty
        // string, which is a value like any other
        let val = if em.rng.chance(1, 2) { String::new() } else { gen_string(em.rng, false).replace('\0', "") };
        argv.push(if em.rng.chance(1, 2) { "-V".into() } else { "--ext-str".into() });
        argv.push("envk".into());
        em.env.push(("envk".into(), val.clone()));
        body = format!("if std.extVar(\"envk\") == {} then ({body}) else error \"ext var envk arrived changed\"", Emit::lit(&Json::Str(val)));
        em.used_kinds.push("ext-str-env");
    }
    let mut stdin = None;
    if matches!(mode.input, InputKind::File | InputKind::Stdin) && em.rng.chance(1, 10) {
        // a program of several read-buffer sizes (it arrives in more than one read; a comment does not change its value)
        let mut pad = String::from("/* ");
        for _ in 0..(3000 + em.rng.usize_below(4000)) {
            pad.push_str("padding é€🙂 ");
        }
        pad.push_str("*/ ");
        body = format!("{pad}{body}");
    }
    if !drop_input {
        match mode.input {
            InputKind::File => {
                tree.push(("main.jsonnet".into(), Entry::File(body.clone().into_bytes())));
                argv.push("main.jsonnet".into());
            }
            InputKind::Exec if exec_dash => {
                argv.push("-e".into());
                argv.push("--".into());
                argv.push("-".into());
                stdin = Some(body.clone().into_bytes());
            }
            InputKind::Exec => {
                argv.push("-e".into());
                // clap would take a leading '-' as a flag
                argv.push(format!("({body})"));
            }
            InputKind::Stdin => {
                stdin = Some(body.clone().into_bytes());
                argv.push("-".into());
            }
        }
    }
    for (p, d) in &em.files {
        tree.push((p.clone(), Entry::File(d.clone())));
    }
    if let (Some(m), Json::Obj(fields)) = (&mode.m, &value) {
        // files left by an earlier, larger run under the names of this run's fields: they must be replaced, not
        // overwritten in place
        if tree.iter().any(|(p, e)| p == m && matches!(e, Entry::Dir)) {
            for (k, _) in fields {
                if em.rng.chance(1, 4) && !k.contains('/') {
                    let mut stale = b"stale content of an earlier run\n".to_vec();
                    stale.extend(std::iter::repeat(b'x').take(40 + em.rng.usize_below(3000)));
                    stale.push(b'\n');
                    tree.push((format!("{m}/{k}"), Entry::File(stale)));
                }
            }
        }
    }
    let mut env = em.env.clone();
    if em.rng.chance(1, 8) {
        // coloured diagnostics (NO_COLOR unset): stdout, files and the exit status must not care
        env.retain(|(k, _)| k != "NO_COLOR");
    }
    C12World { world: World { tree, argv, env, stdin, stdout: StdoutKind::File }, value, mode, expect, o_before, program: body }
}

// ---------------------------------------------------------------------------
// reference model (fault-free run)

fn check_doc(text: &[u8], v: &Json, s: bool, y: bool, nonl: bool, what: &str) -> Result<(), String> {
    let Ok(text) = std::str::from_utf8(text) else {
        return Err(format!("{what}: output is not UTF-8"));
    };
    if s {
        let Json::Str(sv) = v else { return Err(format!("{what}: model value is not a string")) };
        let expect = if nonl { sv.clone() } else { format!("{sv}\n") };
        if text != expect {
            return Err(format!("M2 {what}: -S output {:?} != expected {:?}", trunc(text), trunc(&expect)));
        }
        return Ok(());
    }
    if y {
        let Json::Arr(items) = v else { return Err(format!("{what}: model value is not an array")) };
        if items.is_empty() {
            if !text.is_empty() {
                return Err(format!("M3 {what}: empty array must give empty output, got {:?}", trunc(text)));
            }
            return Ok(());
        }
        let body = if nonl {
            match text.strip_suffix("...") {
                Some(b) if !text.ends_with("...\n") => b,
                _ => return Err(format!("M3/M5 {what}: YAML stream must end with '...' and no newline: {:?}", trunc(text))),
            }
        } else {
            match text.strip_suffix("...\n") {
                Some(b) => b,
                None => return Err(format!("M3 {what}: YAML stream must end with '...\\n': {:?}", trunc(text))),
            }
        };
        let mut docs: Vec<String> = Vec::new();
        for line in body.split_inclusive('\n') {
            if line == "---\n" {
                docs.push(String::new());
            } else {
                match docs.last_mut() {
                    Some(d) => d.push_str(line),
                    None => return Err(format!("M3 {what}: stream does not start with '---'")),
                }
            }
        }
        if docs.len() != items.len() {
            return Err(format!("M3 {what}: {} documents for {} elements", docs.len(), items.len()));
        }
        for (d, item) in docs.iter().zip(items.iter()) {
            if !d.ends_with('\n') {
                return Err(format!("M3 {what}: document not newline-terminated"));
            }
            match json::parse(d) {
                Ok(j) if json_eq(&j, item) => {}
                Ok(j) => return Err(format!("M3 {what}: document {} != element {}", trunc(&j.to_string()), trunc(&item.to_string()))),
                Err(e) => return Err(format!("M3 {what}: document is not JSON ({e}): {:?}", trunc(d))),
            }
        }
        return Ok(());
    }
    let body = if nonl {
        if text.ends_with('\n') {
            return Err(format!("M5 {what}: output ends with a newline despite --no-trailing-newline"));
        }
        text
    } else {
        match text.strip_suffix('\n') {
            Some(b) if !b.ends_with('\n') => b,
            _ => return Err(format!("M1 {what}: output must end with exactly one newline: {:?}", trunc(text))),
        }
    };
    match json::parse(body) {
        Ok(j) if json_eq(&j, v) => Ok(()),
        Ok(j) => Err(format!("M1 {what}: output {} != value {}", trunc(&j.to_string()), trunc(&v.to_string()))),
        Err(e) => Err(format!("M1 {what}: output is not JSON ({e}): {:?}", trunc(body))),
    }
}

fn trunc(s: &str) -> String {
    if s.len() > 160 { format!("{}…({} bytes)", s.chars().take(160).collect::<String>(), s.len()) } else { s.to_string() }
}

pub fn has_panic(stderr: &str) -> bool {
    stderr.contains("panicked at") || stderr.contains("overflowed its stack") || stderr.contains("internal error") || stderr.contains("RUST_BACKTRACE")
}

/// Sinks of a run: stdout bytes, -o file, -m files.
#[derive(Clone, Debug, Default, PartialEq)]
pub struct Sinks {
    pub stdout: Vec<u8>,
    pub o: Option<Vec<u8>>,
    pub m: BTreeMap<String, Vec<u8>>,
}

pub fn sinks_of(w: &C12World, out: &RunOut) -> Sinks {
    let mut s = Sinks { stdout: out.stdout.clone(), ..Default::default() };
    if let Some(o) = &w.mode.o {
        s.o = out.files.get(o).cloned();
    }
    if let Some(m) = &w.mode.m {
        for (k, v) in &out.files {
            if let Some(rest) = k.strip_prefix(&format!("{m}/")) {
                s.m.insert(rest.to_string(), v.clone());
            }
        }
    }
    s
}

/// Step 1: validates the fault-free run against the model. Returns the sinks E.
pub fn check_fault_free(w: &C12World, out: &RunOut) -> Result<Sinks, (String, String)> {
    let bad = |inv: &str, msg: String| Err((inv.to_string(), msg));
    if out.timed_out {
        return bad("I1", "fault-free run timed out".into());
    }
    if has_panic(&out.stderr) {
        return bad("I5", format!("panic on stderr: {}", trunc(&out.stderr)));
    }
    let sinks = sinks_of(w, out);
    match &w.expect {
        Expect::Fail(code, why) => {
            if out.exit != Some(*code) {
                return bad("M8", format!("{why}: expected exit {code}, got exit {:?} signal {:?}; stderr {}", out.exit, out.signal, trunc(&out.stderr)));
            }
            if out.stderr.trim().is_empty() {
                return bad("M8", format!("{why}: nothing on stderr"));
            }
            if !sinks.stdout.is_empty() {
                return bad("M8", format!("{why}: stdout not empty: {:?}", trunc(&String::from_utf8_lossy(&sinks.stdout))));
            }
            if sinks.o != w.o_before {
                return bad("M8", format!("{why}: -o file created or modified"));
            }
            Ok(sinks)
        }
        Expect::Ok => {
            if out.exit != Some(0) {
                return bad("M1", format!("expected exit 0, got exit {:?} signal {:?}; stderr: {}", out.exit, out.signal, trunc(&out.stderr)));
            }
            let (s, y, nonl) = (w.mode.s, w.mode.y, w.mode.nonl);
            let main_sink: &[u8];
            if let Some(_o) = &w.mode.o {
                if !sinks.stdout.is_empty() {
                    return bad("M6", "stdout must be empty with -o".into());
                }
                match &sinks.o {
                    Some(b) => main_sink = b,
                    None => return bad("M6", "-o file was not created".into()),
                }
            } else {
                main_sink = &sinks.stdout;
            }
            if let Some(m) = &w.mode.m {
                let Json::Obj(fields) = &w.value else { return bad("M4", "model value is not an object".into()) };
                let mut keys: Vec<&String> = fields.iter().map(|(k, _)| k).collect();
                keys.sort();
                let list: String = keys.iter().map(|k| format!("{m}/{k}\n")).collect();
                if main_sink != list.as_bytes() {
                    return bad("M4", format!("path list {:?} != expected {:?}", trunc(&String::from_utf8_lossy(main_sink)), trunc(&list)));
                }
                let have: Vec<&String> = sinks.m.keys().collect();
                if have != keys {
                    return bad("M4", format!("files written {have:?} != visible fields {keys:?}"));
                }
                for (k, v) in fields {
                    if let Err(e) = check_doc(&sinks.m[k], v, s, y, nonl, &format!("file {m}/{k}")) {
                        return bad("M4", e);
                    }
                }
            } else if let Err(e) = check_doc(main_sink, &w.value, s, y, nonl, if w.mode.o.is_some() { "-o file" } else { "stdout" }) {
                return bad("M1", e);
            }
            Ok(sinks)
        }
    }
}

// ---------------------------------------------------------------------------
// step 2: fault placement over the recorded I/O trace

#[derive(Clone, Debug, PartialEq)]
pub enum FaultClass {
    /// the instance cannot succeed: exit 1 demanded (I4)
    Hard,
    /// eintr / short: exit 0 with complete output, or exit 1
    Transparent,
    /// statement is silent (e.g. EAGAIN once): either
    Either,
    /// short reads / short writes only: no call reports an error, so nothing has failed and the run must be
    /// indistinguishable from the fault-free one (same exit status, same sinks)
    Invisible,
}

#[derive(Clone, Debug)]
pub struct FaultPlan {
    pub rules: Vec<Rule>,
    pub class: FaultClass,
    pub write_side: bool,
    pub kind: String,
    pub position: String,
    pub stdout_kind: StdoutKind,
}

pub fn instances(log: &[LogLine]) -> Vec<(String, String, usize, bool, bool)> {
    // (op, target, ordinal among same (op,target), is_output_target, is_last_of_its_kind)
    let mut counts: BTreeMap<(String, String), usize> = BTreeMap::new();
    let mut out_targets: Vec<String> = Vec::new();
    for l in log {
        if l.op == "open" {
            if let Some(flags) = l.n {
                if flags & 3 != 0 {
                    out_targets.push(l.target.clone());
                }
            }
        }
    }
    let mut v = Vec::new();
    for l in log {
        if !matches!(l.op.as_str(), "open" | "read" | "write" | "realpath") {
            continue;
        }
        let c = counts.entry((l.op.clone(), l.target.clone())).or_insert(0);
        *c += 1;
        let is_out = out_targets.contains(&l.target) || l.target == "fd:1";
        v.push((l.op.clone(), l.target.clone(), *c, is_out, false));
    }
    let totals = counts;
    for e in v.iter_mut() {
        e.4 = totals[&(e.0.clone(), e.1.clone())] == e.2;
    }
    v
}

pub fn fault_plans(log: &[LogLine], rng: &mut Rng, limit: usize) -> Vec<FaultPlan> {
    let mut plans = Vec::new();
    let mk = |rules: Vec<Rule>, class: FaultClass, write_side: bool, kind: &str, pos: &str| FaultPlan { rules, class, write_side, kind: kind.to_string(), position: pos.to_string(), stdout_kind: StdoutKind::File };
    for (op, target, k, is_out, last) in instances(log) {
        let nth = format!("nth:{k}");
        let from = format!("from:{k}");
        let pos = if target == "fd:1" && last && k > 1 { "last" } else if k == 1 { "first" } else if last { "last" } else { "middle" };
        match (op.as_str(), is_out) {
            ("realpath", _) => {
                for e in ["EACCES", "ELOOP", "ENOENT"] {
                    plans.push(mk(vec![Rule::new("realpath", &target, &nth, &format!("errno:{e}"))], FaultClass::Hard, false, &format!("realpath:{e}"), pos));
                }
            }
            ("open", false) => {
                for e in ["ENOENT", "EACCES", "EISDIR", "EIO", "EMFILE", "ELOOP"] {
                    plans.push(mk(vec![Rule::new("open", &target, &nth, &format!("errno:{e}"))], FaultClass::Hard, false, &format!("open-input:{e}"), pos));
                }
                plans.push(mk(vec![Rule::new("open", &target, &nth, "eintr")], FaultClass::Transparent, false, "open-input:eintr", pos));
            }
            ("open", true) => {
                for e in ["EACCES", "ENOENT", "EISDIR", "EROFS", "ENOSPC"] {
                    plans.push(mk(vec![Rule::new("open", &target, &nth, &format!("errno:{e}"))], FaultClass::Hard, true, &format!("open-output:{e}"), pos));
                }
                plans.push(mk(vec![Rule::new("open", &target, &nth, "eintr")], FaultClass::Transparent, true, "open-output:eintr", pos));
            }
            ("read", _) => {
                plans.push(mk(vec![Rule::new("read", &target, &nth, "errno:EIO")], FaultClass::Hard, false, "read:EIO", pos));
                plans.push(mk(vec![Rule::new("read", &target, &nth, "eintr")], FaultClass::Transparent, false, "read:eintr", pos));
                let n = 1 + rng.below(9);
                plans.push(mk(vec![Rule::new("read", &target, &from, &format!("short:{n}"))], FaultClass::Invisible, false, "read:short", pos));
                plans.push(mk((0..3).map(|d| Rule::new("read", &target, &format!("nth:{}", k + d), "eintr")).collect(), FaultClass::Transparent, false, "read:eintr-x3", pos));
            }
            ("write", _) => {
                plans.push(mk(vec![Rule::new("write", &target, &from, "errno:ENOSPC")], FaultClass::Hard, true, "write:ENOSPC-from", pos));
                plans.push(mk(vec![Rule::new("write", &target, &from, "errno:EPIPE")], FaultClass::Hard, true, "write:EPIPE-from", pos));
                plans.push(mk(vec![Rule::new("write", &target, &nth, "errno:EIO")], FaultClass::Hard, true, "write:EIO-once", pos));
                plans.push(mk(vec![Rule::new("write", &target, &nth, "eintr")], FaultClass::Transparent, true, "write:eintr", pos));
                plans.push(mk(vec![Rule::new("write", &target, &nth, "errno:EAGAIN")], FaultClass::Either, true, "write:EAGAIN-once", pos));
                let n = 1 + rng.below(7);
                plans.push(mk(vec![Rule::new("write", &target, &from, &format!("short:{n}"))], FaultClass::Invisible, true, "write:short", pos));
                plans.push(mk((0..3).map(|d| Rule::new("write", &target, &format!("nth:{}", k + d), "eintr")).collect(), FaultClass::Transparent, true, "write:eintr-x3", pos));
                plans.push(mk(vec![Rule::new("write", &target, &from, "zero")], FaultClass::Hard, true, "write:zero-from", pos));
                plans.push(mk(vec![Rule::new("write", &target, &nth, &format!("short:{n}")), Rule::new("write", &target, &format!("from:{}", k + 1), "errno:ENOSPC")], FaultClass::Hard, true, "write:short-then-ENOSPC", pos));
            }
            _ => {}
        }
    }
    // seeded two-fault plans
    if plans.len() >= 2 {
        for _ in 0..2 {
            let a = plans[rng.usize_below(plans.len())].clone();
            let b = plans[rng.usize_below(plans.len())].clone();
            if a.rules[0].target != b.rules[0].target || a.rules[0].op != b.rules[0].op {
                let class = if a.class == FaultClass::Hard || b.class == FaultClass::Hard || a.class == FaultClass::Either || b.class == FaultClass::Either {
                    FaultClass::Either
                } else if a.class == FaultClass::Invisible && b.class == FaultClass::Invisible {
                    FaultClass::Invisible
                } else {
                    FaultClass::Transparent
                };
                let mut rules = a.rules.clone();
                rules.extend(b.rules.iter().cloned());
                plans.push(FaultPlan { rules, class, write_side: a.write_side || b.write_side, kind: "two-faults".into(), position: "mixed".into(), stdout_kind: StdoutKind::File });
            }
        }
    }
    if plans.len() > limit {
        rng.shuffle(&mut plans);
        plans.truncate(limit);
    }
    plans
}

/// -m files that exist before the run (left by "an earlier run"), by field name.
fn m_files_before(w: &C12World) -> BTreeMap<String, Vec<u8>> {
    let mut out = BTreeMap::new();
    if let Some(m) = &w.mode.m {
        for (p, e) in &w.world.tree {
            if let (Some(rest), Entry::File(d)) = (p.strip_prefix(&format!("{m}/")), e) {
                out.insert(rest.to_string(), d.clone());
            }
        }
    }
    out
}

fn is_prefix(a: &[u8], of: &[u8]) -> bool {
    of.len() >= a.len() && &of[..a.len()] == a
}

/// Invariants I1..I5 for one fault run. `fired`: some rule of the plan actually fired.
pub fn check_fault_run(w: &C12World, e: &Sinks, base_exit: Option<i32>, plan: &FaultPlan, out: &RunOut) -> Result<(), (String, String, String)> {
    let fired = out.log.iter().any(|l| l.injected);
    // a hard fault counts only if a failing result (other than EINTR) was actually delivered
    let hard_fired = out.log.iter().any(|l| l.injected && (matches!(&l.result, Err(e) if e != "EINTR" && e != "EAGAIN") || (l.op == "write" && l.result == Ok(0) && l.n.unwrap_or(0) > 0)));
    let bad = |inv: &str, class: &str, msg: String| Err((inv.to_string(), format!("{class}:{}", plan.kind), msg));
    if out.timed_out {
        return bad("I1", "timeout", "run exceeded 20 s".into());
    }
    if has_panic(&out.stderr) {
        return bad("I5", "panic", format!("panic on stderr: {}", trunc(&out.stderr)));
    }
    let ok_codes: &[i32] = if base_exit == Some(2) { &[2] } else { &[0, 1] };
    match out.exit {
        Some(c) if ok_codes.contains(&c) || (base_exit == Some(1) && c == 1) => {}
        _ => return bad("I1", "exit-status", format!("exit {:?} signal {:?}; stderr {}", out.exit, out.signal, trunc(&out.stderr))),
    }
    let sinks = sinks_of(w, out);
    if !fired {
        // the plan never applied (e.g. usage error before any I/O): the run must equal the fault-free one
        if out.exit != base_exit || sinks != *e {
            return bad("I6", "unfired-plan-changed-run", format!("no rule fired but exit {:?} (fault-free {:?}) or sinks differ", out.exit, base_exit));
        }
        return Ok(());
    }
    if w.expect != Expect::Ok {
        // the fault-free run already fails: it must still fail, still write nothing
        if out.exit == Some(0) {
            return bad("I1", "failing-run-succeeded-under-fault", format!("fault-free run exits {:?} but faulted run exits 0", base_exit));
        }
        if !sinks.stdout.is_empty() || sinks.o != w.o_before {
            return bad("I3", "output-on-failure", "stdout or -o written although the run fails".into());
        }
        return Ok(());
    }
    if plan.class == FaultClass::Invisible && (out.exit != base_exit || sinks != *e) {
        // short reads / short writes are not failures: every call succeeded, the tool has to carry on
        return bad("I2", "short-io-changed-run", format!("only short reads/writes were injected (no call failed) but exit {:?} (fault-free {:?}) or the sinks differ; stderr {}", out.exit, base_exit, trunc(&out.stderr)));
    }
    if out.exit == Some(0) {
        // I2: acknowledged => durable and complete
        if sinks != *e {
            let what = if sinks.stdout != e.stdout { format!("stdout holds {} of {} bytes", sinks.stdout.len(), e.stdout.len()) } else if sinks.o != e.o { format!("-o file holds {:?} of {:?} bytes", sinks.o.as_ref().map(|v| v.len()), e.o.as_ref().map(|v| v.len())) } else { "a -m file differs".to_string() };
            return bad("I2", "exit0-incomplete-output", format!("exit 0 but {what}; plan {:?}", plan.rules.iter().map(|r| r.line()).collect::<String>()));
        }
        if plan.class == FaultClass::Hard && hard_fired {
            return bad("I4", "hard-fault-exit0", format!("a failing {} was answered with exit 0 (output happens to be complete); plan {:?}", plan.kind, plan.rules.iter().map(|r| r.line()).collect::<String>()));
        }
        return Ok(());
    }
    // exit 1
    if out.stderr.trim().is_empty() {
        return bad("I3", "silent-failure", "exit 1 with nothing on stderr".into());
    }
    if plan.write_side {
        // "writes nothing to stdout or the -o file": a sink may hold a partial manifestation only if the failing call
        // was a write on that very sink (the bytes accepted before the failure cannot be taken back)
        let hit = |t: &str| out.log.iter().any(|l| l.injected && l.target == t);
        if !sinks.stdout.is_empty() && !hit("fd:1") {
            return bad("I3", "stdout-on-other-sink-failure", format!("{} bytes on stdout although the run fails and no write to stdout was faulted", sinks.stdout.len()));
        }
        if let Some(op) = &w.mode.o {
            if sinks.o != w.o_before && !hit(&format!("path:{op}")) {
                return bad("I3", "o-file-on-other-sink-failure", "-o file created or modified although the run fails and no call on the -o file was faulted".into());
            }
        }
        if !is_prefix(&sinks.stdout, &e.stdout) {
            return bad("I3", "stdout-not-prefix", format!("stdout after a write fault is not a prefix of the manifestation ({} bytes)", sinks.stdout.len()));
        }
        match (&sinks.o, &e.o) {
            (Some(a), Some(b)) if !is_prefix(a, b) && Some(a) != w.o_before.as_ref() => return bad("I3", "o-file-not-prefix", "-o file is neither untouched nor a prefix of the manifestation".into()),
            (Some(a), None) if Some(a) != w.o_before.as_ref() => return bad("I3", "o-file-unexpected", "-o file appeared".into()),
            _ => {}
        }
        let m_before = m_files_before(w);
        for (k, v) in &sinks.m {
            match e.m.get(k) {
                Some(full) if is_prefix(v, full) => {}
                // not reached by the failing run: still what an earlier run left there
                _ if m_before.get(k) == Some(v) => {}
                _ => return bad("I3", "m-file-not-prefix", format!("-m file {k} is neither untouched nor a prefix of its manifestation")),
            }
        }
    } else {
        if !sinks.stdout.is_empty() {
            return bad("I3", "stdout-on-read-failure", format!("{} bytes on stdout although an input could not be read", sinks.stdout.len()));
        }
        if sinks.o != w.o_before {
            return bad("I3", "o-file-on-read-failure", "-o file created or modified although an input could not be read".into());
        }
    }
    Ok(())
}

pub fn world_to_json(w: &C12World, plan: &[Rule], stdout_kind: &StdoutKind) -> Json {
    let mut ww = w.world.clone();
    ww.stdout = stdout_kind.clone();
    let mut f = ww.to_json(plan);
    f.push((
        "model".into(),
        Json::obj(vec![
            ("kind", Json::str("c12")),
            ("value", w.value.clone()),
            ("mode", Json::obj(vec![("S", Json::Bool(w.mode.s)), ("y", Json::Bool(w.mode.y)), ("m", w.mode.m.as_ref().map(Json::str).unwrap_or(Json::Null)), ("o", w.mode.o.as_ref().map(Json::str).unwrap_or(Json::Null)), ("nonl", Json::Bool(w.mode.nonl)), ("input", Json::str(match w.mode.input { InputKind::File => "file", InputKind::Exec => "exec", InputKind::Stdin => "stdin" }))])),
            ("expect", match &w.expect { Expect::Ok => Json::str("ok"), Expect::Fail(c, why) => Json::obj(vec![("exit", Json::int(*c)), ("why", Json::str(why))]) }),
            ("o_before", w.o_before.as_ref().map(|b| Json::str(String::from_utf8_lossy(b))).unwrap_or(Json::Null)),
        ]),
    ));
    Json::Obj(f)
}

pub fn world_from_json(j: &Json) -> Option<(C12World, Vec<Rule>)> {
    let (world, plan) = World::from_json(j)?;
    let m = j.get("model")?;
    let md = m.get("mode")?;
    let mode = Mode {
        s: md.get("S")?.as_bool()?,
        y: md.get("y")?.as_bool()?,
        m: md.get("m").and_then(|x| x.as_str()).map(String::from),
        o: md.get("o").and_then(|x| x.as_str()).map(String::from),
        nonl: md.get("nonl")?.as_bool()?,
        input: match md.get("input").and_then(|x| x.as_str()) { Some("exec") => InputKind::Exec, Some("stdin") => InputKind::Stdin, _ => InputKind::File },
    };
    let expect = match m.get("expect")? {
        Json::Str(_) => Expect::Ok,
        e => Expect::Fail(e.get("exit")?.as_f64()? as i32, e.get("why")?.as_str()?.to_string()),
    };
    let o_before = m.get("o_before").and_then(|x| x.as_str()).map(|s| s.as_bytes().to_vec());
    Some((C12World { world, value: m.get("value")?.clone(), mode, expect, o_before, program: String::new() }, plan))
}

pub fn violation(w: &C12World, plan: &[Rule], stdout_kind: &StdoutKind, inv: &str, class: &str, detail: &str, run_index: u64, out: &RunOut, minimised: bool) -> Violation {
    Violation {
        property: "C12".into(),
        engine: "sim-cli".into(),
        invariant: inv.into(),
        class: class.into(),
        detail: detail.into(),
        run_index,
        scenario: world_to_json(w, plan, stdout_kind),
        observed: Json::obj(vec![("exit", out.exit.map(Json::int).unwrap_or(Json::Null)), ("signal", out.signal.map(Json::int).unwrap_or(Json::Null)), ("stdout_len", Json::int(out.stdout.len() as i64)), ("stderr", Json::str(trunc(&out.stderr)))]),
        expected: Json::str("see invariant"),
        event_log_sha256: out.identity(),
        minimised,
    }
}

/// Executes (world, plan) completely: fault-free validation, then the fault run if a plan is given.
pub fn check_world(w: &C12World, plan: &[Rule], stdout_kind: &StdoutKind) -> (RunOut, Option<(String, String, String)>) {
    let base = run_world(&w.world, &[]);
    let e = match check_fault_free(w, &base) {
        Ok(e) => e,
        Err((inv, msg)) => return (base, Some((inv.clone(), format!("model:{inv}"), msg))),
    };
    if plan.is_empty() && *stdout_kind == StdoutKind::File {
        if w.expect == Expect::Ok && (w.mode.m.is_some() || w.mode.o.is_some()) {
            // M10: a re-run over its own outputs changes nothing
            let again = crate::cliworld::run_world_again(&w.world);
            if again.exit != base.exit || again.stdout != base.stdout || sinks_of(w, &again) != sinks_of(w, &base) {
                return (again, Some(("M10".into(), "model:rerun-differs".into(), "a second run of the same command in the same tree differs".into())));
            }
        }
        return (base, None);
    }
    let mut ww = w.clone();
    ww.world.stdout = stdout_kind.clone();
    let out = run_world(&ww.world, plan);
    let fp = FaultPlan { rules: plan.to_vec(), class: classify_rules(plan, stdout_kind), write_side: plan.iter().any(|r| r.op == "write" || (r.op == "open" && r.act.contains("EROFS"))) || *stdout_kind != StdoutKind::File || plan_targets_output(plan, &base.log), kind: kind_of_rules(plan, stdout_kind), position: String::new(), stdout_kind: stdout_kind.clone() };
    let r = if *stdout_kind != StdoutKind::File { check_real_sink(w, &e, base.exit, &fp, &out) } else { check_fault_run(w, &e, base.exit, &fp, &out) };
    (out, r.err())
}

fn plan_targets_output(plan: &[Rule], log: &[LogLine]) -> bool {
    plan.iter().any(|r| r.op == "open" && log.iter().any(|l| l.op == "open" && l.target == r.target && l.n.map(|f| f & 3 != 0).unwrap_or(false)))
}

fn kind_of_rules(plan: &[Rule], sk: &StdoutKind) -> String {
    if *sk == StdoutKind::DevFull {
        return "real:/dev/full".into();
    }
    if *sk == StdoutKind::PipeClosed {
        return "real:pipe-closed".into();
    }
    if plan.len() == 3 && plan.iter().all(|r| r.act == "eintr" && r.op == plan[0].op && r.target == plan[0].target) {
        return format!("{}:eintr-x3", plan[0].op);
    }
    if plan.len() == 1 {
        let r = &plan[0];
        let a = r.act.replace("errno:", "");
        let a = if a.starts_with("short") { "short".to_string() } else { a };
        match (r.op.as_str(), r.when.starts_with("from")) {
            ("write", true) if a != "short" => format!("write:{a}-from"),
            ("write", false) if a != "short" && a != "eintr" => format!("write:{a}-once"),
            (op, _) => format!("{op}:{a}"),
        }
    } else if plan.len() == 2 && plan[0].act.starts_with("short") && plan[1].act.contains("ENOSPC") {
        "write:short-then-ENOSPC".into()
    } else {
        "two-faults".into()
    }
}

fn classify_rules(plan: &[Rule], sk: &StdoutKind) -> FaultClass {
    if *sk != StdoutKind::File {
        return FaultClass::Hard;
    }
    if !plan.is_empty() && plan.iter().all(|r| r.act.starts_with("short")) {
        return FaultClass::Invisible;
    }
    if !plan.is_empty() && plan.iter().all(|r| r.act == "eintr") {
        return FaultClass::Transparent;
    }
    if plan.len() == 1 {
        let r = &plan[0];
        if r.act == "eintr" || r.act.starts_with("short") {
            FaultClass::Transparent
        } else if r.act.contains("EAGAIN") {
            FaultClass::Either
        } else {
            FaultClass::Hard
        }
    } else if plan.len() == 2 && plan[0].act.starts_with("short") && plan[1].act.contains("ENOSPC") && plan[0].target == plan[1].target {
        FaultClass::Hard
    } else {
        FaultClass::Either
    }
}

/// Real (kernel-provided) sink faults: stdout is /dev/full or a pipe whose reader is gone.
pub fn check_real_sink(w: &C12World, e: &Sinks, base_exit: Option<i32>, plan: &FaultPlan, out: &RunOut) -> Result<(), (String, String, String)> {
    let bad = |inv: &str, class: &str, msg: String| Err((inv.to_string(), format!("{class}:{}", plan.kind), msg));
    if has_panic(&out.stderr) {
        return bad("I5", "panic", format!("panic on stderr: {}", trunc(&out.stderr)));
    }
    if out.signal.is_some() || !matches!(out.exit, Some(0) | Some(1) | Some(2)) {
        return bad("I1", "exit-status", format!("exit {:?} signal {:?}", out.exit, out.signal));
    }
    if w.expect != Expect::Ok {
        if out.exit != base_exit {
            return bad("I1", "exit-status-changed", format!("exit {:?}, fault-free {:?}", out.exit, base_exit));
        }
        return Ok(());
    }
    // nothing can reach such a sink: exit 0 is only right when nothing had to be written to stdout
    if e.stdout.is_empty() {
        if out.exit != Some(0) {
            return bad("I1", "failed-without-stdout-output", format!("exit {:?} although nothing is written to stdout in this mode; stderr {}", out.exit, trunc(&out.stderr)));
        }
        return Ok(());
    }
    if out.exit == Some(0) {
        return bad("I2", "exit0-incomplete-output", format!("exit 0 although stdout ({}) accepted none of the {} bytes", plan.kind, e.stdout.len()));
    }
    if out.stderr.trim().is_empty() {
        return bad("I3", "silent-failure", "exit 1 with nothing on stderr".into());
    }
    Ok(())
}

#[derive(Default)]
pub struct Stats {
    pub worlds: u64,
    pub spawns: u64,
    pub fault_runs: u64,
    pub fault_kinds_fired: BTreeMap<String, u64>,
    pub probes: BTreeMap<String, u64>,
    pub tuples: Vec<u64>,
    pub io_calls: u64,
    pub base_identity: u64,
}

pub fn mode_name(m: &Mode) -> String {
    format!("{}{}{}{}{}:{}", if m.s { "S" } else { "" }, if m.y { "y" } else { "" }, if m.m.is_some() { "m" } else { "" }, if m.o.is_some() { "o" } else { "" }, if m.nonl { "n" } else { "" }, match m.input { InputKind::File => "file", InputKind::Exec => "exec", InputKind::Stdin => "stdin" })
}

/// One world: step 1 + all (or a sample of) fault placements + relations M5/M9 + determinism I6.
pub fn run_one(root_seed: u64, i: u64, max_plans: usize, st: &mut Stats) -> Option<Violation> {
    let seed = crate::rng::run_seed(root_seed, "sim-cli-c12", i);
    let w = gen_world(seed);
    let mut frng = Rng::stream(seed, "fault");
    st.worlds += 1;
    let base = run_world(&w.world, &[]);
    st.spawns += 1;
    st.io_calls += base.log.len() as u64;
    st.base_identity = crate::rng::fnv1a64(&base.identity());
    bump(&mut st.probes, &format!("mode:{}", mode_name(&w.mode)));
    if let Expect::Fail(_, why) = &w.expect {
        bump(&mut st.probes, &format!("mismatch:{why}"));
    }
    let e = match check_fault_free(&w, &base) {
        Ok(e) => e,
        Err((inv, msg)) => return Some(violation(&w, &[], &StdoutKind::File, &inv, &format!("model:{inv}"), &msg, i, &base, false)),
    };
    if e.stdout.len() + e.o.as_ref().map(|o| o.len()).unwrap_or(0) > 8192 {
        bump(&mut st.probes, "output_larger_than_8KiB");
    }
    // re-running the same command over its own outputs (an -o file / -m files that already hold exactly what this run
    // writes) changes nothing: same exit status, same stdout (incl. the -m path list), same files
    if w.expect == Expect::Ok && (w.mode.m.is_some() || w.mode.o.is_some()) && i % 2 == 0 {
        let again = crate::cliworld::run_world_again(&w.world);
        st.spawns += 1;
        bump(&mut st.probes, "rerun_over_own_outputs_checked");
        if again.exit != base.exit || again.stdout != base.stdout || sinks_of(&w, &again) != sinks_of(&w, &base) {
            return Some(violation(&w, &[], &StdoutKind::File, "M10", "model:rerun-differs", &format!("a second run of the same command in the same tree differs: exit {:?} vs {:?}, stdout {} vs {} bytes", again.exit, base.exit, again.stdout.len(), base.stdout.len()), i, &again, false));
        }
    }
    // I6 determinism (second spawn under a different ASLR / hash seed)
    if i % 8 == 0 {
        let again = run_world(&w.world, &[]);
        st.spawns += 1;
        if again.identity() != base.identity() {
            return Some(violation(&w, &[], &StdoutKind::File, "I6", "nondeterministic-run", "two executions of the same world differ", i, &again, false));
        }
        bump(&mut st.probes, "determinism_reexecutions");
    }
    // M5: --no-trailing-newline drops only the final newline
    if w.expect == Expect::Ok && i % 8 == 1 {
        let mut w2 = w.clone();
        if w.mode.nonl {
            w2.world.argv.retain(|a| a != "--no-trailing-newline");
        } else {
            w2.world.argv.insert(0, "--no-trailing-newline".into());
        }
        w2.mode.nonl = !w.mode.nonl;
        let o2 = run_world(&w2.world, &[]);
        st.spawns += 1;
        match check_fault_free(&w2, &o2) {
            Err((inv, msg)) => return Some(violation(&w2, &[], &StdoutKind::File, &inv, &format!("model:{inv}"), &format!("(toggled --no-trailing-newline) {msg}"), i, &o2, false)),
            Ok(e2) => {
                let (with_nl, without) = if w.mode.nonl { (&e2, &e) } else { (&e, &e2) };
                let strip = |b: &Vec<u8>| -> Vec<u8> { if b.ends_with(b"\n") { b[..b.len() - 1].to_vec() } else { b.clone() } };
                let docs_ok = if w.mode.m.is_some() { with_nl.m.iter().all(|(k, v)| without.m.get(k).map(|x| *x == strip(v) || v.is_empty()).unwrap_or(false)) && with_nl.stdout == without.stdout && with_nl.o == without.o } else if w.mode.o.is_some() { without.o.as_ref() == with_nl.o.as_ref().map(strip).as_ref() } else { without.stdout == strip(&with_nl.stdout) };
                if !docs_ok {
                    return Some(violation(&w2, &[], &StdoutKind::File, "M5", "model:M5-relation", "--no-trailing-newline changed more than the final newline", i, &o2, false));
                }
                bump(&mut st.probes, "M5_relation_checked");
            }
        }
    }
    // M9: same program as file / -e / - gives the same output
    if w.expect == Expect::Ok && i % 8 == 2 {
        for kind in [InputKind::File, InputKind::Exec, InputKind::Stdin] {
            if kind == w.mode.input {
                continue;
            }
            let mut w2 = w.clone();
            // strip the input argument(s)
            match w.mode.input {
                InputKind::File => {
                    w2.world.argv.pop();
                }
                InputKind::Exec => {
                    w2.world.argv.pop();
                    w2.world.argv.pop();
                }
                InputKind::Stdin => {
                    w2.world.argv.pop();
                    w2.world.stdin = None;
                }
            }
            match kind {
                InputKind::File => {
                    w2.world.tree.push(("main.jsonnet".into(), Entry::File(w.program.clone().into_bytes())));
                    w2.world.argv.push("main.jsonnet".into());
                }
                InputKind::Exec => {
                    w2.world.argv.push("-e".into());
                    w2.world.argv.push(format!("({})", w.program));
                }
                InputKind::Stdin => {
                    w2.world.stdin = Some(w.program.clone().into_bytes());
                    w2.world.argv.push("-".into());
                }
            }
            w2.mode.input = kind;
            let o2 = run_world(&w2.world, &[]);
            st.spawns += 1;
            if o2.exit != base.exit || sinks_of(&w2, &o2) != e {
                return Some(violation(&w2, &[], &StdoutKind::File, "M9", "model:M9-relation", "the same program given as file / -e / stdin gives different output", i, &o2, false));
            }
        }
        bump(&mut st.probes, "M9_relation_checked");
    }
    // step 2
    let mut plans = fault_plans(&base.log, &mut frng, max_plans);
    // real (kernel) sink faults
    if i % 4 == 0 {
        plans.push(FaultPlan { rules: vec![], class: FaultClass::Hard, write_side: true, kind: "real:/dev/full".into(), position: "all".into(), stdout_kind: StdoutKind::DevFull });
        plans.push(FaultPlan { rules: vec![], class: FaultClass::Hard, write_side: true, kind: "real:pipe-closed".into(), position: "all".into(), stdout_kind: StdoutKind::PipeClosed });
    }
    for plan in &plans {
        let mut ww = w.clone();
        ww.world.stdout = plan.stdout_kind.clone();
        let out = run_world(&ww.world, &plan.rules);
        st.spawns += 1;
        st.fault_runs += 1;
        st.io_calls += out.log.len() as u64;
        let fired = out.log.iter().any(|l| l.injected) || plan.stdout_kind != StdoutKind::File;
        if fired {
            bump(&mut st.fault_kinds_fired, &plan.kind);
            st.tuples.push(crate::rng::fnv1a64(&format!("{}|{}|{}", mode_name(&w.mode), plan.kind, plan.position)));
            if plan.position == "last" && plan.kind.starts_with("write") {
                bump(&mut st.probes, "fault_on_last_write_of_multi_write_output");
            }
            if plan.kind == "write:short-then-ENOSPC" {
                bump(&mut st.probes, "short_then_ENOSPC");
            }
            if w.mode.nonl && plan.rules.iter().any(|r| r.target == "fd:1") && w.mode.o.is_none() {
                bump(&mut st.probes, "fault_on_unterminated_stdout_tail(at-exit flush before the fix)");
            }
            if plan.rules.iter().any(|r| r.target.starts_with("path:m/")) && e.m.len() >= 2 {
                bump(&mut st.probes, "fault_on_m_file_with_several_files");
            }
            if plan.rules.iter().any(|r| r.target.contains("lib/cf") || r.target.contains("lib/tla")) {
                bump(&mut st.probes, "fault_on_ext_or_tla_code_file");
            }
        }
        let r = if plan.stdout_kind != StdoutKind::File { check_real_sink(&w, &e, base.exit, plan, &out) } else { check_fault_run(&w, &e, base.exit, plan, &out) };
        if let Err((inv, class, msg)) = r {
            // reproduce once more before reporting (soundness rule 5)
            let again = run_world(&ww.world, &plan.rules);
            st.spawns += 1;
            let r2 = if plan.stdout_kind != StdoutKind::File { check_real_sink(&w, &e, base.exit, plan, &again) } else { check_fault_run(&w, &e, base.exit, plan, &again) };
            if r2.is_err() {
                return Some(violation(&w, &plan.rules, &plan.stdout_kind, &inv, &class, &msg, i, &out, false));
            }
        }
    }
    None
}

pub fn replay(scenario: &Json) -> Result<Option<Violation>, String> {
    let (w, plan) = world_from_json(scenario).ok_or("bad c12 scenario")?;
    let sk = w.world.stdout.clone();
    let mut w0 = w.clone();
    w0.world.stdout = StdoutKind::File;
    let (out, f) = check_world(&w0, &plan, &sk);
    Ok(f.map(|(inv, class, msg)| violation(&w0, &plan, &sk, &inv, &class, &msg, 0, &out, true)))
}

//! C11 session mode: the same request histories on one long-lived
//! `rsjsonnet_front::Session` over a real directory, compared with a fresh
//! Session per request. Outcome = manifested JSON (or none) plus what the
//! Session printed on stderr. fd 2 is process-wide, so these runs execute in
//! single-threaded child processes whose stderr the parent points at a file.

use std::collections::{BTreeMap, HashMap};
use std::io::{Read as _, Seek as _, SeekFrom};
use std::path::{Path, PathBuf};

use rsjsonnet_front::Session;
use rsjsonnet_lang::arena::Arena;
use rsjsonnet_lang::program::{Thunk, Value};

use crate::histsim::{gen_history_mode, history_from_json, history_to_json, place_faults, History, INF_STACK};
use crate::json::{self, Json};
use crate::reqs::{Op, Req, Resolved};
use crate::rng::Rng;
use crate::util::{bump, Violation};

#[derive(Clone, Debug, PartialEq)]
pub struct SOut {
    pub json: Option<String>,
    pub stderr: String,
}

impl SOut {
    fn kind(&self) -> String {
        if self.json.is_some() {
            return "ok".into();
        }
        for line in self.stderr.lines() {
            if let Some(m) = line.strip_prefix("error: ") {
                let k: String = m.chars().take_while(|c| *c != ':' && *c != '"').collect();
                return k.trim().replace(' ', "-");
            }
        }
        "failed".into()
    }
    fn short(&self) -> String {
        match &self.json {
            Some(j) => format!("ok:{}", j.chars().take(80).collect::<String>()),
            None => format!("none:{}", self.stderr.lines().filter(|l| l.starts_with("error")).collect::<Vec<_>>().join(" | ").chars().take(200).collect::<String>()),
        }
    }
    fn to_json(&self) -> Json {
        Json::obj(vec![("json", self.json.as_ref().map(Json::str).unwrap_or(Json::Null)), ("stderr", Json::str(&self.stderr))])
    }
}

pub struct ErrReader {
    file: std::fs::File,
    pos: u64,
}

impl ErrReader {
    fn open() -> Option<ErrReader> {
        let p = std::env::var("VERIF_SESS_ERR").ok()?;
        let mut file = std::fs::File::open(p).ok()?;
        let pos = file.seek(SeekFrom::End(0)).ok()?;
        Some(ErrReader { file, pos })
    }
    fn take(&mut self) -> String {
        let mut buf = Vec::new();
        let _ = self.file.seek(SeekFrom::Start(self.pos));
        let _ = self.file.read_to_end(&mut buf);
        self.pos += buf.len() as u64;
        String::from_utf8_lossy(&buf).into_owned()
    }
}

struct SessExec<'p> {
    sess: Session<'p>,
    thunks: Vec<(usize, Thunk<'p>)>,
    values: Vec<(usize, Value<'p>)>,
    max_stack: usize,
    ext_names: Vec<String>,
}

/// `Program::add_ext_var` with a code value loaded as the virtual file `<ext:NAME>`; a name can be set only once.
fn add_ext_code(sess: &mut Session<'_>, names: &mut Vec<String>, name: &str, code: &str) -> bool {
    if names.iter().any(|n| n == name) {
        return false;
    }
    match sess.load_virt_file(&format!("<ext:{name}>"), code.as_bytes().to_vec()) {
        Some(t) => {
            let n = sess.program().intern_str(name);
            sess.program_mut().add_ext_var(n, &t);
            names.push(name.to_string());
            true
        }
        None => false,
    }
}

fn new_session<'p>(arena: &'p Arena, h: &History) -> Session<'p> {
    let mut sess = Session::new(arena);
    // every file is reachable by exactly one spelling (the path a shared module is displayed by is, by design,
    // the one it was first loaded by; histories must not differ in that)
    sess.add_search_path(PathBuf::from(""));
    sess.add_search_path(PathBuf::from("j"));
    sess.add_native_func("id", &["x"], |_, [x]| Ok(x.clone()));
    sess.add_native_func("fail", &["x"], |_, [_x]| Err("asked to fail".into()));
    sess.add_native_func("picky", &["x"], |_, [x]| match (x.as_number(), x.as_bool()) {
        (Some(n), _) if n > 0.0 => Ok(x.clone()),
        (_, Some(true)) => Ok(x.clone()),
        _ => Err("picky refuses this argument".into()),
    });
    // what the lang-mode simulator offers under these names does not exist here; plain pass-through keeps programs alive
    sess.add_native_func("gcNow", &["x"], |p, [x]| {
        p.gc();
        Ok(x.clone())
    });
    sess.add_native_func("tryOther", &["x"], |_, [x]| Ok(x.clone()));
    sess.add_native_func("evalOther", &["x"], |_, [x]| Ok(x.clone()));
    for (name, is_code, text) in &h.world.ext {
        let thunk = if *is_code {
            sess.load_virt_file(&format!("<ext:{name}>"), text.clone().into_bytes())
        } else {
            Some(sess.program_mut().value_to_thunk(&Value::string(text)))
        };
        if let Some(t) = thunk {
            let n = sess.program().intern_str(name);
            sess.program_mut().add_ext_var(n, &t);
        }
    }
    sess
}

fn do_eval<'p>(sess: &mut Session<'p>, t: &Thunk<'p>) -> (Option<String>, Option<Value<'p>>) {
    match sess.eval_value(t) {
        Some(v) => (sess.manifest_json(&v, false), Some(v)),
        None => (None, None),
    }
}

fn do_top<'p>(sess: &mut Session<'p>, t: &Thunk<'p>, tla: &[(String, bool, String)]) -> (Option<String>, Option<Value<'p>>) {
    let Some(v) = sess.eval_value(t) else { return (None, None) };
    let v = if v.is_function() {
        let ft = sess.program_mut().value_to_thunk(&v);
        let mut named = Vec::new();
        for (name, is_code, text) in tla {
            let th = if *is_code {
                match sess.load_virt_file(&format!("<tla:{name}>"), text.clone().into_bytes()) {
                    Some(t) => t,
                    None => return (None, None),
                }
            } else {
                sess.program_mut().value_to_thunk(&Value::string(text))
            };
            named.push((sess.program().intern_str(name), th));
        }
        match sess.eval_call(&ft, &[], &named) {
            Some(v) => v,
            None => return (None, None),
        }
    } else if !tla.is_empty() {
        return (Some("<tla given but root is not a function>".into()), None);
    } else {
        v
    };
    (sess.manifest_json(&v, true), Some(v))
}

/// `p` vanishes; `dir:p` is replaced by a directory of the same name (exists, canonicalises, cannot be read)
fn hide(paths: &[String]) {
    for p in paths {
        match p.strip_prefix("dir:") {
            Some(p) => {
                let _ = std::fs::rename(p, format!("{p}.hidden"));
                let _ = std::fs::create_dir(p);
            }
            None => {
                let _ = std::fs::rename(p, format!("{p}.hidden"));
            }
        }
    }
}

fn unhide(paths: &[String]) {
    for p in paths {
        let p = match p.strip_prefix("dir:") {
            Some(p) => {
                let _ = std::fs::remove_dir(p);
                p
            }
            None => p,
        };
        let _ = std::fs::rename(format!("{p}.hidden"), p);
    }
}

impl<'p> SessExec<'p> {
    fn sel_thunk(&self, h: u32) -> Option<usize> {
        if self.thunks.is_empty() {
            None
        } else if h == crate::reqs::LAST_THUNK {
            Some(self.thunks.len() - 1)
        } else {
            Some(h as usize % self.thunks.len())
        }
    }
    fn sel_value(&self, h: u32) -> Option<usize> {
        if self.values.is_empty() { None } else { Some(h as usize % self.values.len()) }
    }

    fn step(&mut self, i: usize, op: &Op, err: &mut ErrReader) -> (SOut, Resolved) {
        let mut res = Resolved::default();
        if let Some(k) = op.fault.stack {
            self.sess.program_mut().set_max_stack(k);
        }
        hide(&op.fault.import_fail);
        let json = self.step_inner(i, &op.req, &mut res);
        unhide(&op.fault.import_fail);
        if op.fault.stack.is_some() {
            self.sess.program_mut().set_max_stack(self.max_stack);
        }
        (SOut { json, stderr: err.take() }, res)
    }

    fn step_inner(&mut self, i: usize, req: &Req, res: &mut Resolved) -> Option<String> {
        let none = Some(String::new());
        match req {
            Req::Load(name) => match self.sess.load_real_file(Path::new(name)) {
                Some(t) => {
                    self.thunks.push((i, t));
                    none
                }
                None => None,
            },
            Req::Eval { thunk, keep } => {
                let Some(k) = self.sel_thunk(*thunk) else {
                    res.noop = true;
                    return none;
                };
                res.thunk = Some(self.thunks[k].0);
                let t = self.thunks[k].1.clone();
                let (out, v) = do_eval(&mut self.sess, &t);
                if let (true, Some(v)) = (*keep, v) {
                    self.values.push((i, v));
                }
                out
            }
            Req::Top { thunk, tla, keep } => {
                let Some(k) = self.sel_thunk(*thunk) else {
                    res.noop = true;
                    return none;
                };
                res.thunk = Some(self.thunks[k].0);
                let t = self.thunks[k].1.clone();
                let (out, v) = do_top(&mut self.sess, &t, tla);
                if let (true, Some(v)) = (*keep, v) {
                    self.values.push((i, v));
                }
                out
            }
            Req::Call { thunk, pos, named, keep } => {
                let Some(k) = self.sel_thunk(*thunk) else {
                    res.noop = true;
                    return none;
                };
                res.thunk = Some(self.thunks[k].0);
                let t = self.thunks[k].1.clone();
                let mut p = Vec::new();
                for h in pos {
                    let kk = self.sel_thunk(*h).unwrap();
                    res.pos.push(self.thunks[kk].0);
                    p.push(self.thunks[kk].1.clone());
                }
                let mut n = Vec::new();
                for (name, h) in named {
                    let kk = self.sel_thunk(*h).unwrap();
                    res.named.push((name.clone(), self.thunks[kk].0));
                    n.push((self.sess.program().intern_str(name), self.thunks[kk].1.clone()));
                }
                match self.sess.eval_call(&t, &p, &n) {
                    Some(v) => {
                        let out = self.sess.manifest_json(&v, false);
                        if *keep {
                            self.values.push((i, v));
                        }
                        out
                    }
                    None => None,
                }
            }
            Req::Manifest { value, multiline } => {
                let Some(k) = self.sel_value(*value) else {
                    res.noop = true;
                    return none;
                };
                res.values.push(self.values[k].0);
                let v = self.values[k].1.clone();
                self.sess.manifest_json(&v, *multiline)
            }
            Req::ToThunk { value } => {
                let Some(k) = self.sel_value(*value) else {
                    res.noop = true;
                    return none;
                };
                res.values.push(self.values[k].0);
                let v = self.values[k].1.clone();
                let t = self.sess.program_mut().value_to_thunk(&v);
                self.thunks.push((i, t));
                none
            }
            Req::MakeArray { values } => {
                if self.values.is_empty() {
                    res.noop = true;
                    return none;
                }
                let mut vs = Vec::new();
                for h in values {
                    let k = self.sel_value(*h).unwrap();
                    res.values.push(self.values[k].0);
                    vs.push(self.values[k].1.clone());
                }
                let v = self.sess.program_mut().make_array(&vs);
                let out = self.sess.manifest_json(&v, false);
                self.values.push((i, v));
                out
            }
            Req::MakeObject { values } => {
                if self.values.is_empty() {
                    res.noop = true;
                    return none;
                }
                let mut vs = Vec::new();
                for (i2, h) in values.iter().enumerate() {
                    let k = self.sel_value(*h).unwrap();
                    res.values.push(self.values[k].0);
                    vs.push((self.sess.program().intern_str(&format!("f{i2}")), self.values[k].1.clone()));
                }
                let v = self.sess.program_mut().make_object(&vs);
                let out = self.sess.manifest_json(&v, false);
                self.values.push((i, v));
                out
            }
            Req::Gc => {
                self.sess.program_mut().gc();
                none
            }
            Req::DropThunk(h) => {
                match self.sel_thunk(*h) {
                    Some(k) => {
                        res.thunk = Some(self.thunks[k].0);
                        self.thunks.remove(k);
                    }
                    None => res.noop = true,
                }
                none
            }
            Req::DropValue(h) => {
                match self.sel_value(*h) {
                    Some(k) => {
                        res.values.push(self.values[k].0);
                        self.values.remove(k);
                    }
                    None => res.noop = true,
                }
                none
            }
            Req::AddExtVar { name, code } => {
                if !add_ext_code(&mut self.sess, &mut self.ext_names, name, code) {
                    res.noop = true;
                }
                none
            }
            Req::SetMaxStack(n) => {
                self.max_stack = *n;
                self.sess.program_mut().set_max_stack(*n);
                none
            }
        }
    }
}

struct Fresh<'p, 'h> {
    sess: Session<'p>,
    h: &'h History,
    resolved: &'h [Resolved],
    thunks: HashMap<usize, Thunk<'p>>,
    values: HashMap<usize, Value<'p>>,
}

impl<'p> Fresh<'p, '_> {
    fn thunk_of(&mut self, p: usize) -> Result<Thunk<'p>, String> {
        if let Some(t) = self.thunks.get(&p) {
            return Ok(t.clone());
        }
        let t = match &self.h.ops[p].req {
            Req::Load(src) => self.sess.load_real_file(Path::new(src)).ok_or_else(|| format!("producer load {p} fails on a fresh session"))?,
            Req::ToThunk { .. } => {
                let v = self.value_of(self.resolved[p].values[0])?;
                self.sess.program_mut().value_to_thunk(&v)
            }
            other => return Err(format!("op {p} ({other:?}) is not a thunk producer")),
        };
        self.thunks.insert(p, t.clone());
        Ok(t)
    }

    fn value_of(&mut self, q: usize) -> Result<Value<'p>, String> {
        if let Some(v) = self.values.get(&q) {
            return Ok(v.clone());
        }
        self.sess.program_mut().set_max_stack(INF_STACK);
        let (_, v) = self.request(q)?;
        match v {
            Some(v) => {
                self.values.insert(q, v.clone());
                Ok(v)
            }
            None => Err(format!("producer request {q} gives no value on a fresh session")),
        }
    }

    fn request(&mut self, r: usize) -> Result<(Option<String>, Option<Value<'p>>), String> {
        let res = &self.resolved[r];
        let req = self.h.ops[r].req.clone();
        Ok(match &req {
            Req::Load(src) => match self.sess.load_real_file(Path::new(src)) {
                Some(_) => (Some(String::new()), None),
                None => (None, None),
            },
            Req::Eval { .. } => {
                let t = self.thunk_of(res.thunk.unwrap())?;
                do_eval(&mut self.sess, &t)
            }
            Req::Top { tla, .. } => {
                let t = self.thunk_of(res.thunk.unwrap())?;
                do_top(&mut self.sess, &t, tla)
            }
            Req::Call { .. } => {
                let t = self.thunk_of(res.thunk.unwrap())?;
                let mut pos = Vec::new();
                for p in &res.pos {
                    pos.push(self.thunk_of(*p)?);
                }
                let mut named = Vec::new();
                for (n, p) in &res.named {
                    let th = self.thunk_of(*p)?;
                    named.push((self.sess.program().intern_str(n), th));
                }
                match self.sess.eval_call(&t, &pos, &named) {
                    Some(v) => (self.sess.manifest_json(&v, false), Some(v)),
                    None => (None, None),
                }
            }
            Req::Manifest { multiline, .. } => {
                let v = self.value_of(res.values[0])?;
                (self.sess.manifest_json(&v, *multiline), None)
            }
            Req::MakeArray { .. } => {
                let mut vs = Vec::new();
                for q in &res.values {
                    vs.push(self.value_of(*q)?);
                }
                let v = self.sess.program_mut().make_array(&vs);
                (self.sess.manifest_json(&v, false), Some(v))
            }
            Req::MakeObject { .. } => {
                let mut vs = Vec::new();
                for (i2, q) in res.values.iter().enumerate() {
                    let v = self.value_of(*q)?;
                    vs.push((self.sess.program().intern_str(&format!("f{i2}")), v));
                }
                let v = self.sess.program_mut().make_object(&vs);
                (self.sess.manifest_json(&v, false), Some(v))
            }
            _ => (Some(String::new()), None),
        })
    }
}

fn fresh_outcome(h: &History, resolved: &[Resolved], r: usize, limit: usize, err: &mut ErrReader) -> Result<SOut, String> {
    let arena = Arena::new();
    let mut sess = new_session(&arena, h);
    let mut names: Vec<String> = h.world.ext.iter().map(|(n, _, _)| n.clone()).collect();
    for (k, op) in h.ops.iter().enumerate().take(r) {
        if let (Req::AddExtVar { name, code }, false) = (&op.req, resolved[k].noop) {
            add_ext_code(&mut sess, &mut names, name, code);
        }
    }
    let _ = err.take();
    let mut f = Fresh { sess, h, resolved, thunks: HashMap::new(), values: HashMap::new() };
    let res = &resolved[r];
    f.sess.program_mut().set_max_stack(INF_STACK);
    let pre: Result<(), String> = (|| {
        if let Some(p) = res.thunk {
            if !matches!(h.ops[r].req, Req::DropThunk(_)) {
                f.thunk_of(p)?;
            }
        }
        for p in res.pos.iter().chain(res.named.iter().map(|(_, p)| p)) {
            f.thunk_of(*p)?;
        }
        if !matches!(h.ops[r].req, Req::DropValue(_)) {
            for q in &res.values {
                f.value_of(*q)?;
            }
        }
        Ok(())
    })();
    let _ = err.take();
    pre?;
    f.sess.program_mut().set_max_stack(limit);
    let out = f.request(r).map(|(j, _)| j);
    let stderr = err.take();
    out.map(|json| SOut { json, stderr })
}

fn is_overflow(o: &SOut) -> bool {
    o.json.is_none() && o.stderr.contains("error: stack overflow")
}

fn same(a: &SOut, b: &SOut) -> bool {
    (is_overflow(a) && is_overflow(b)) || a == b
}

#[derive(Default)]
pub struct SessStats {
    pub requests: u64,
    pub compared: u64,
    pub inconclusive: u64,
    pub relaxed: u64,
    pub faulted_ok: u64,
    pub probes: BTreeMap<String, u64>,
}

pub struct SessFailure {
    pub invariant: String,
    pub class: String,
    pub detail: String,
    pub observed: Json,
    pub expected: Json,
}

/// Runs one history on the real Session in the current directory tree. Must be
/// called from a single-threaded process whose stderr is the VERIF_SESS_ERR file.
pub fn check_history(h: &History, st: &mut SessStats, err: &mut ErrReader) -> Option<SessFailure> {
    let arena = Arena::new();
    let sess = new_session(&arena, h);
    let _ = err.take();
    let mut ex = SessExec { sess, thunks: Vec::new(), values: Vec::new(), max_stack: 500, ext_names: h.world.ext.iter().map(|(n, _, _)| n.clone()).collect() };
    let mut outs = Vec::new();
    let mut resolved = Vec::new();
    let mut limits = Vec::new();
    for (i, op) in h.ops.iter().enumerate() {
        limits.push(ex.max_stack);
        let (o, r) = ex.step(i, op, err);
        outs.push(o);
        resolved.push(r);
    }
    drop(ex);
    for (r, out) in outs.iter().enumerate() {
        let op = &h.ops[r];
        st.requests += 1;
        if resolved[r].noop || !matches!(op.req, Req::Load(_) | Req::Eval { .. } | Req::Top { .. } | Req::Call { .. } | Req::Manifest { .. } | Req::MakeArray { .. } | Req::MakeObject { .. }) {
            continue;
        }
        st.compared += 1;
        if out.json.is_none() {
            bump(&mut st.probes, &format!("session_aborted_request:{}", out.kind()));
        }
        let fresh_l = match fresh_outcome(h, &resolved, r, limits[r], err) {
            Ok(o) => o,
            Err(_) => {
                st.inconclusive += 1;
                continue;
            }
        };
        if same(out, &fresh_l) {
            continue;
        }
        let fresh_inf = match fresh_outcome(h, &resolved, r, INF_STACK, err) {
            Ok(o) => o,
            Err(_) => {
                st.inconclusive += 1;
                continue;
            }
        };
        if !(is_overflow(&fresh_l) || same(&fresh_l, &fresh_inf)) {
            st.inconclusive += 1;
            continue;
        }
        if is_overflow(&fresh_l) && same(out, &fresh_inf) {
            st.relaxed += 1;
            continue;
        }
        let faulted = !op.fault.is_none();
        if faulted {
            if same(out, &fresh_inf) {
                continue;
            }
            let ok = (op.fault.stack.is_some() && is_overflow(out))
                || (!op.fault.import_fail.is_empty() && out.json.is_none() && (out.stderr.contains("failed to import") || out.stderr.contains("does not exist") || out.stderr.contains("not found in search path") || out.stderr.contains("failed to read") || out.stderr.contains("Is a directory")));
            if ok {
                st.faulted_ok += 1;
                continue;
            }
        }
        let class = format!("session:shared={},fresh={}", out.kind(), fresh_l.kind());
        let class = if out.kind() == fresh_l.kind() { format!("{class},content-differs") } else { class };
        return Some(SessFailure {
            invariant: if faulted { "R2".into() } else { "R1".into() },
            class,
            detail: format!("(session mode) request {r} {:?}{} after {r} earlier requests: shared Session answered {}, a fresh Session answers {} (limit {}) / {} (ample limit)", op.req, if faulted { format!(" with fault {:?}", op.fault) } else { String::new() }, out.short(), fresh_l.short(), limits[r], fresh_inf.short()),
            observed: out.to_json(),
            expected: fresh_l.to_json(),
        });
    }
    None
}

fn write_tree(h: &History, dir: &Path) {
    let _ = std::fs::remove_dir_all(dir);
    std::fs::create_dir_all(dir).expect("harness: scratch dir");
    for (p, data) in h.world.files.iter() {
        let full = dir.join(p);
        if let Some(parent) = full.parent() {
            let _ = std::fs::create_dir_all(parent);
        }
        std::fs::write(full, data).expect("harness: write file");
    }
}

pub fn gen_session_history(root: u64, i: u64) -> History {
    let seed = crate::rng::run_seed(root, "sim-hist-session", i);
    let with_faults = i % 2 == 1;
    let mut h = gen_history_mode(seed, with_faults, true);
    h.inner_gc = None;
    if with_faults {
        // stack limits at drawn depths and files that vanish for the duration of one request (only files
        // without a fallback candidate: a vanished file with a fallback makes the request succeed with other
        // content, which is then legitimately memoised - a changed world, not an aborted evaluation)
        let depths: Vec<u64> = vec![60; h.ops.len()];
        place_faults(&mut h, &depths, seed);
        let mut f = Rng::stream(seed, "fault2");
        for op in h.ops.iter_mut() {
            op.fault.native_fail.clear();
            if !op.fault.import_fail.is_empty() {
                op.fault.import_fail = vec![(*f.pick(&["lib.libsonnet", "lib/sub.libsonnet", "j/util.libsonnet", "d/extra.libsonnet", "dir:lib.libsonnet", "dir:lib/sub.libsonnet", "dir:d/extra.libsonnet"])).to_string()];
            }
        }
    }
    h
}

fn scratch_dir() -> PathBuf {
    let parent = if Path::new("/dev/shm").is_dir() { PathBuf::from("/dev/shm") } else { std::env::temp_dir() };
    parent.join(format!("verif-sess-{:07}", std::process::id()))
}

/// Child entry: `c11 --session-child <root_seed> <start> <end>` or `--session-replay <file>`.
pub fn child_main(args: &[String]) -> i32 {
    let Some(mut err) = ErrReader::open() else {
        eprintln!("HARNESS ERROR: VERIF_SESS_ERR not set");
        return 2;
    };
    let dir = scratch_dir();
    let run = |h: &History, err: &mut ErrReader, st: &mut SessStats| -> Option<SessFailure> {
        write_tree(h, &dir);
        std::env::set_current_dir(&dir).expect("harness: chdir");
        let r = std::panic::catch_unwind(std::panic::AssertUnwindSafe(|| check_history(h, st, err)));
        match r {
            Ok(f) => f,
            Err(p) => Some(SessFailure { invariant: "R4".into(), class: "session:panic".into(), detail: crate::util::panic_message(&p), observed: Json::Null, expected: Json::str("no panic") }),
        }
    };
    let code;
    if args[0] == "--session-replay" {
        let text = std::fs::read_to_string(&args[1]).unwrap_or_default();
        let h = json::parse(&text).ok().and_then(|j| history_from_json(&j));
        let Some(h) = h else {
            println!("{}", Json::obj(vec![("error", Json::str("bad scenario"))]).to_string());
            return 2;
        };
        let mut st = SessStats::default();
        let f = run(&h, &mut err, &mut st);
        println!("{}", failure_json(0, &h, f.as_ref(), &st).to_string());
        code = 0;
    } else {
        let root: u64 = args[1].parse().unwrap_or(1);
        let start: u64 = args[2].parse().unwrap_or(0);
        let end: u64 = args[3].parse().unwrap_or(0);
        for i in start..end {
            let h = gen_session_history(root, i);
            let mut st = SessStats::default();
            let f = run(&h, &mut err, &mut st);
            println!("{}", failure_json(i, &h, f.as_ref(), &st).to_string());
        }
        code = 0;
    }
    let _ = std::env::set_current_dir("/");
    let _ = std::fs::remove_dir_all(&dir);
    code
}

fn failure_json(i: u64, h: &History, f: Option<&SessFailure>, st: &SessStats) -> Json {
    Json::obj(vec![
        ("i", Json::Num(i as f64)),
        ("requests", Json::Num(st.requests as f64)),
        ("compared", Json::Num(st.compared as f64)),
        ("inconclusive", Json::Num(st.inconclusive as f64)),
        ("relaxed", Json::Num(st.relaxed as f64)),
        ("faulted_ok", Json::Num(st.faulted_ok as f64)),
        ("probes", crate::util::counts_to_json(&st.probes)),
        (
            "failure",
            match f {
                None => Json::Null,
                Some(f) => Json::obj(vec![("invariant", Json::str(&f.invariant)), ("class", Json::str(&f.class)), ("detail", Json::str(&f.detail)), ("observed", f.observed.clone()), ("expected", f.expected.clone()), ("scenario", session_scenario_json(h))]),
            },
        ),
    ])
}

pub fn session_scenario_json(h: &History) -> Json {
    let mut j = history_to_json(h);
    if let Json::Obj(f) = &mut j {
        for (k, v) in f.iter_mut() {
            if k == "mode" {
                *v = Json::str("session");
            }
        }
    }
    j
}

#[derive(Default)]
pub struct Batch {
    pub histories: u64,
    pub requests: u64,
    pub compared: u64,
    pub inconclusive: u64,
    pub relaxed: u64,
    pub faulted_ok: u64,
    pub probes: BTreeMap<String, u64>,
    pub violations: Vec<Violation>,
}

fn spawn_child(args: &[String], tag: &str) -> Result<String, String> {
    let mut exe = std::env::current_exe().map_err(|e| e.to_string())?;
    if !exe.exists() {
        // the binary was rebuilt while this process runs: /proc/self/exe reads "<path> (deleted)"
        if let Some(p) = exe.to_str().and_then(|s| s.strip_suffix(" (deleted)")) {
            exe = PathBuf::from(p);
        }
    }
    let errp = scratch_dir().with_file_name(format!("verif-sess-err-{:07}-{tag}", std::process::id()));
    let errf = std::fs::File::create(&errp).map_err(|e| e.to_string())?;
    let out = std::process::Command::new(exe).args(args).env("VERIF_SESS_ERR", &errp).stderr(errf).stdin(std::process::Stdio::null()).output().map_err(|e| e.to_string())?;
    let _ = std::fs::remove_file(&errp);
    if !out.status.success() {
        return Err(format!("session child exited with {:?}: {}", out.status, String::from_utf8_lossy(&out.stdout).chars().take(300).collect::<String>()));
    }
    Ok(String::from_utf8_lossy(&out.stdout).into_owned())
}

fn absorb(b: &mut Batch, line: &str) {
    let Ok(j) = json::parse(line) else { return };
    b.histories += 1;
    let n = |k: &str| j.get(k).and_then(|v| v.as_u64()).unwrap_or(0);
    b.requests += n("requests");
    b.compared += n("compared");
    b.inconclusive += n("inconclusive");
    b.relaxed += n("relaxed");
    b.faulted_ok += n("faulted_ok");
    if let Some(p) = j.get("probes").and_then(|p| p.as_obj()) {
        for (k, v) in p {
            crate::util::bump_by(&mut b.probes, k, v.as_u64().unwrap_or(0));
        }
    }
    if let Some(f) = j.get("failure") {
        if *f != Json::Null {
            let s = |k: &str| f.get(k).and_then(|v| v.as_str()).unwrap_or("").to_string();
            b.violations.push(Violation {
                property: "C11".into(),
                engine: "sim-hist-session".into(),
                invariant: s("invariant"),
                class: s("class"),
                detail: s("detail"),
                run_index: n("i"),
                scenario: f.get("scenario").cloned().unwrap_or(Json::Null),
                observed: f.get("observed").cloned().unwrap_or(Json::Null),
                expected: f.get("expected").cloned().unwrap_or(Json::Null),
                event_log_sha256: crate::util::sha256_hex(line.as_bytes()),
                minimised: false,
            });
        }
    }
}

pub fn batch(root: u64, n: u64, workers: usize) -> Result<Batch, String> {
    let chunk = n.div_ceil(workers.max(1) as u64).max(1);
    let jobs: Vec<(u64, u64)> = (0..workers as u64).map(|k| (k * chunk, ((k + 1) * chunk).min(n))).filter(|(a, b)| a < b).collect();
    let outs = crate::util::run_pool(jobs.len() as u64, jobs.len().max(1), |k| {
        let (a, b) = jobs[k as usize];
        spawn_child(&["--session-child".into(), root.to_string(), a.to_string(), b.to_string()], &k.to_string())
    });
    let mut b = Batch::default();
    for o in outs {
        let o = o?;
        for line in o.lines() {
            absorb(&mut b, line);
        }
    }
    Ok(b)
}

pub fn replay(scenario: &Json) -> Result<Option<Violation>, String> {
    let p = scratch_dir().with_file_name(format!("verif-sess-replay-{:07}.json", std::process::id()));
    std::fs::write(&p, scenario.to_string()).map_err(|e| e.to_string())?;
    let out = spawn_child(&["--session-replay".into(), p.to_string_lossy().to_string()], "replay");
    let _ = std::fs::remove_file(&p);
    let out = out?;
    let mut b = Batch::default();
    for line in out.lines() {
        absorb(&mut b, line);
    }
    Ok(b.violations.into_iter().next())
}

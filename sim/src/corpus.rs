//! The repository's own UI-test programs as additional workload. Their
//! blessed outputs are NOT used — only the differential oracles.

use std::collections::BTreeMap;
use std::sync::Arc;

pub struct CorpusEntry {
    pub path: String,
    pub ext: Vec<(String, bool, String)>,
    pub tla: Vec<(String, bool, String)>,
    pub max_stack: Option<usize>,
}

pub struct Corpus {
    pub files: Arc<BTreeMap<String, Vec<u8>>>,
    pub entries: Vec<CorpusEntry>,
    pub skipped: usize,
}

fn walk(dir: &std::path::Path, prefix: &str, out: &mut BTreeMap<String, Vec<u8>>) {
    let Ok(rd) = std::fs::read_dir(dir) else { return };
    let mut names: Vec<_> = rd.filter_map(|e| e.ok()).map(|e| e.file_name()).collect();
    names.sort();
    for n in names {
        let p = dir.join(&n);
        let name = n.to_string_lossy();
        let rel = if prefix.is_empty() { name.to_string() } else { format!("{prefix}/{name}") };
        if p.is_dir() {
            walk(&p, &rel, out);
        } else if let Ok(data) = std::fs::read(&p) {
            if !rel.ends_with(".stdout") && !rel.ends_with(".stderr") {
                out.insert(rel, data);
            }
        }
    }
}

/// shell-like split (quotes only)
fn split_args(s: &str) -> Option<Vec<String>> {
    let mut out = Vec::new();
    let mut cur = String::new();
    let mut in_word = false;
    let mut chars = s.chars().peekable();
    while let Some(c) = chars.next() {
        match c {
            ' ' | '\t' => {
                if in_word {
                    out.push(std::mem::take(&mut cur));
                    in_word = false;
                }
            }
            '\'' => {
                in_word = true;
                loop {
                    match chars.next()? {
                        '\'' => break,
                        c => cur.push(c),
                    }
                }
            }
            '"' => {
                in_word = true;
                loop {
                    match chars.next()? {
                        '"' => break,
                        '\\' => cur.push(chars.next()?),
                        c => cur.push(c),
                    }
                }
            }
            '\\' => {
                in_word = true;
                cur.push(chars.next()?);
            }
            c => {
                in_word = true;
                cur.push(c);
            }
        }
    }
    if in_word {
        out.push(cur);
    }
    Some(out)
}

pub fn load(root: &str) -> Corpus {
    let mut files = BTreeMap::new();
    walk(std::path::Path::new(root), "", &mut files);
    let mut entries = Vec::new();
    let mut skipped = 0;
    'files: for (path, data) in &files {
        if !path.ends_with(".jsonnet") {
            continue;
        }
        let text = String::from_utf8_lossy(data);
        let mut e = CorpusEntry { path: path.clone(), ext: Vec::new(), tla: Vec::new(), max_stack: None };
        for line in text.lines() {
            let Some(rest) = line.strip_prefix("//@args:") else { continue };
            let Some(args) = split_args(rest.trim()) else {
                skipped += 1;
                continue 'files;
            };
            let mut it = args.into_iter();
            while let Some(a) = it.next() {
                let kv = |it: &mut std::vec::IntoIter<String>| -> Option<(String, String)> {
                    let v = it.next()?;
                    let (k, val) = v.split_once('=')?;
                    Some((k.to_string(), val.to_string()))
                };
                match a.as_str() {
                    "--ext-str" | "-V" => match kv(&mut it) {
                        Some((k, v)) => e.ext.push((k, false, v)),
                        None => { skipped += 1; continue 'files; }
                    },
                    "--ext-code" => match kv(&mut it) {
                        Some((k, v)) => e.ext.push((k, true, v)),
                        None => { skipped += 1; continue 'files; }
                    },
                    "--tla-str" | "-A" => match kv(&mut it) {
                        Some((k, v)) => e.tla.push((k, false, v)),
                        None => { skipped += 1; continue 'files; }
                    },
                    "--tla-code" => match kv(&mut it) {
                        Some((k, v)) => e.tla.push((k, true, v)),
                        None => { skipped += 1; continue 'files; }
                    },
                    "--max-stack" | "-s" => match it.next().and_then(|v| v.parse().ok()) {
                        Some(n) => e.max_stack = Some(n),
                        None => { skipped += 1; continue 'files; }
                    },
                    "--max-trace" | "-t" => { it.next(); }
                    "-S" | "-y" | "--no-trailing-newline" | "--string" | "--yaml-stream" => {}
                    _ => { skipped += 1; continue 'files; }
                }
            }
        }
        entries.push(e);
    }
    Corpus { files: Arc::new(files), entries, skipped }
}

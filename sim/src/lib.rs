//! Deterministic-simulation machinery for rsjsonnet (see /verif/DESIGN.md).
#![allow(clippy::too_many_arguments, clippy::type_complexity, clippy::new_without_default)]

pub mod pgen;
pub mod prog;
pub mod reqs;
pub mod c12;
pub mod c13;
pub mod climin;
pub mod cliworld;
pub mod corpus;
pub mod gcsim;
pub mod heap;
pub mod histsim;
pub mod json;
pub mod rng;
pub mod sessim;
pub mod util;

//! Seed plumbing: one integer decides everything (see notes/engine-specs.md §A).

pub fn splitmix64(state: &mut u64) -> u64 {
    *state = state.wrapping_add(0x9E37_79B9_7F4A_7C15);
    let mut z = *state;
    z = (z ^ (z >> 30)).wrapping_mul(0xBF58_476D_1CE4_E5B9);
    z = (z ^ (z >> 27)).wrapping_mul(0x94D0_49BB_1331_11EB);
    z ^ (z >> 31)
}

pub fn fnv1a64(s: &str) -> u64 {
    let mut h: u64 = 0xcbf2_9ce4_8422_2325;
    for b in s.bytes() {
        h ^= u64::from(b);
        h = h.wrapping_mul(0x0000_0100_0000_01B3);
    }
    h
}

pub fn root_seed() -> u64 {
    match std::env::var("VERIF_SEED") {
        Ok(s) => s.trim().parse::<u64>().unwrap_or_else(|_| fnv1a64(&s)),
        Err(_) => 1,
    }
}

/// Seed of run `i` of engine `engine` under root seed `root`.
pub fn run_seed(root: u64, engine: &str, i: u64) -> u64 {
    let mut s = root ^ fnv1a64(engine) ^ i.wrapping_mul(0x9E37_79B9_7F4A_7C15);
    splitmix64(&mut s)
}

/// xoshiro256**
#[derive(Clone, Debug)]
pub struct Rng {
    s: [u64; 4],
}

impl Rng {
    pub fn from_seed(seed: u64) -> Self {
        let mut sm = seed;
        let s = [
            splitmix64(&mut sm),
            splitmix64(&mut sm),
            splitmix64(&mut sm),
            splitmix64(&mut sm),
        ];
        Self { s }
    }

    /// Independent named stream of a run.
    pub fn stream(run_seed: u64, name: &str) -> Self {
        Self::from_seed(run_seed ^ fnv1a64(name))
    }

    pub fn next_u64(&mut self) -> u64 {
        let result = self.s[1].wrapping_mul(5).rotate_left(7).wrapping_mul(9);
        let t = self.s[1] << 17;
        self.s[2] ^= self.s[0];
        self.s[3] ^= self.s[1];
        self.s[1] ^= self.s[2];
        self.s[0] ^= self.s[3];
        self.s[2] ^= t;
        self.s[3] = self.s[3].rotate_left(45);
        result
    }

    /// Uniform in `0..n` (n > 0), by rejection.
    pub fn below(&mut self, n: u64) -> u64 {
        assert!(n > 0);
        if n.is_power_of_two() {
            return self.next_u64() & (n - 1);
        }
        let zone = u64::MAX - (u64::MAX % n) - 1;
        loop {
            let v = self.next_u64();
            if v <= zone {
                return v % n;
            }
        }
    }

    pub fn usize_below(&mut self, n: usize) -> usize {
        self.below(n as u64) as usize
    }

    /// Uniform in `lo..=hi`.
    pub fn range(&mut self, lo: i64, hi: i64) -> i64 {
        assert!(lo <= hi);
        lo + self.below((hi - lo) as u64 + 1) as i64
    }

    /// True with probability num/den.
    pub fn chance(&mut self, num: u64, den: u64) -> bool {
        self.below(den) < num
    }

    pub fn pick<'a, T>(&mut self, items: &'a [T]) -> &'a T {
        &items[self.usize_below(items.len())]
    }

    /// Picks an index according to integer weights.
    pub fn weighted(&mut self, weights: &[u32]) -> usize {
        let total: u64 = weights.iter().map(|&w| u64::from(w)).sum();
        assert!(total > 0);
        let mut x = self.below(total);
        for (i, &w) in weights.iter().enumerate() {
            if x < u64::from(w) {
                return i;
            }
            x -= u64::from(w);
        }
        unreachable!()
    }

    pub fn shuffle<T>(&mut self, items: &mut [T]) {
        for i in (1..items.len()).rev() {
            let j = self.usize_below(i + 1);
            items.swap(i, j);
        }
    }
}

#[cfg(test)]
mod tests {
    use super::*;
    #[test]
    fn deterministic() {
        let mut a = Rng::stream(run_seed(1, "x", 3), "gen");
        let mut b = Rng::stream(run_seed(1, "x", 3), "gen");
        for _ in 0..100 {
            assert_eq!(a.next_u64(), b.next_u64());
        }
        let mut c = Rng::stream(run_seed(1, "x", 3), "sched");
        assert_ne!(a.next_u64(), c.next_u64());
    }
}

//! Typed, environment-aware Jsonnet program generator shared by `sim-gc`
//! and `sim-hist`, with a structural shrinker. The oracles are differential
//! (same code under another schedule / on a fresh state), so programs are
//! tuned for heap-shape and evaluator-state diversity, not for a reference
//! semantics: mostly type-correct, with planted errors where the mask allows.

use crate::rng::Rng;

#[derive(Clone, Debug, PartialEq)]
pub enum Ty {
    Num,
    Str,
    Bool,
    Null,
    Arr(Box<Ty>),
    Obj,
    Fun(usize, Box<Ty>),
    Any,
}

#[derive(Clone, Debug)]
pub enum P {
    T(String),
    N(Node),
    /// droppable items, printed separated by `sep`
    L(Vec<Vec<P>>, &'static str),
}

#[derive(Clone, Debug)]
pub struct Node {
    pub ty: Ty,
    pub parts: Vec<P>,
}

fn t(s: impl Into<String>) -> P {
    P::T(s.into())
}

impl Node {
    pub fn leaf(ty: Ty, s: impl Into<String>) -> Node {
        Node { ty, parts: vec![t(s)] }
    }
    pub fn print(&self) -> String {
        let mut out = String::new();
        self.print_into(&mut out);
        out
    }
    fn print_into(&self, out: &mut String) {
        print_parts(&self.parts, out);
    }
    pub fn size(&self) -> usize {
        1 + parts_size(&self.parts)
    }
    fn is_leaf(&self) -> bool {
        self.parts.len() == 1 && matches!(self.parts[0], P::T(_))
    }

    /// Number of shrink candidates (see `shrink`).
    pub fn num_candidates(&self) -> usize {
        let mut n: isize = isize::MAX / 2;
        let start = n;
        let mut c = self.clone();
        c.mutate(&mut n);
        (start - n) as usize
    }

    /// Applies the k-th shrink move: replace a subtree by the smallest leaf of
    /// its type, or drop one item of a list. Returns None if k is out of range
    /// or the move is a no-op.
    pub fn shrink(&self, k: usize) -> Option<Node> {
        let mut c = self.clone();
        let mut n = k as isize;
        if c.mutate(&mut n) { Some(c) } else { None }
    }

    fn mutate(&mut self, target: &mut isize) -> bool {
        if !self.is_leaf() {
            if *target == 0 {
                *self = Node::leaf(self.ty.clone(), min_leaf(&self.ty));
                return true;
            }
            *target -= 1;
        }
        mutate_parts(&mut self.parts, target)
    }
}

fn print_parts(parts: &[P], out: &mut String) {
    for p in parts {
        match p {
            P::T(s) => out.push_str(s),
            P::N(n) => n.print_into(out),
            P::L(items, sep) => {
                for (i, item) in items.iter().enumerate() {
                    if i > 0 {
                        out.push_str(sep);
                    }
                    print_parts(item, out);
                }
            }
        }
    }
}

fn parts_size(parts: &[P]) -> usize {
    parts
        .iter()
        .map(|p| match p {
            P::T(_) => 0,
            P::N(n) => n.size(),
            P::L(items, _) => items.iter().map(|i| parts_size(i)).sum(),
        })
        .sum()
}

fn mutate_parts(parts: &mut [P], target: &mut isize) -> bool {
    for p in parts.iter_mut() {
        match p {
            P::T(_) => {}
            P::N(n) => {
                if n.mutate(target) {
                    return true;
                }
            }
            P::L(items, _) => {
                let mut j = 0;
                while j < items.len() {
                    if *target == 0 {
                        items.remove(j);
                        return true;
                    }
                    *target -= 1;
                    if mutate_parts(&mut items[j], target) {
                        return true;
                    }
                    j += 1;
                }
            }
        }
    }
    false
}

pub fn min_leaf(ty: &Ty) -> String {
    match ty {
        Ty::Num => "0".into(),
        Ty::Str => "\"\"".into(),
        Ty::Bool => "true".into(),
        Ty::Null | Ty::Any => "null".into(),
        Ty::Arr(_) => "[]".into(),
        Ty::Obj => "{}".into(),
        Ty::Fun(k, r) => {
            let params: Vec<String> = (0..*k).map(|i| format!("p{i}")).collect();
            format!("(function({}) {})", params.join(", "), min_leaf(r))
        }
    }
}

/// Swarm-style per-run configuration.
#[derive(Clone, Debug)]
pub struct GenCfg {
    pub size: i32,
    pub errors: bool,
    pub stdlib: bool,
    pub objects: bool,
    pub inherit: bool,
    pub comprehensions: bool,
    pub functions: bool,
    pub cycles: bool,
    pub effects: bool,
    pub imports: Vec<(String, Ty)>,
    pub ext_vars: Vec<(String, Ty)>,
    pub natives: bool,
    pub big_heap: bool,
    pub deep: Option<u32>,
}

impl GenCfg {
    pub fn draw(rng: &mut Rng) -> GenCfg {
        let on = |rng: &mut Rng| rng.chance(3, 4);
        GenCfg {
            size: [10, 20, 40, 80, 140, 200][rng.usize_below(6)],
            errors: rng.chance(1, 3),
            stdlib: on(rng),
            objects: on(rng),
            inherit: on(rng),
            comprehensions: on(rng),
            functions: on(rng),
            cycles: rng.chance(1, 2),
            effects: rng.chance(1, 2),
            imports: Vec::new(),
            ext_vars: Vec::new(),
            natives: rng.chance(1, 3),
            big_heap: rng.chance(1, 12),
            deep: if rng.chance(1, 8) { Some(20 + rng.below(200) as u32) } else { None },
        }
    }
}

pub struct Gen<'a> {
    pub rng: &'a mut Rng,
    pub cfg: GenCfg,
    vars: Vec<(String, Ty)>,
    fresh: u32,
    budget: i32,
    /// enclosing object literals: their (field name, type) tables
    objs: Vec<Vec<(String, Ty)>>,
    in_super_ctx: u32,
}

const STRS: &[&str] = &["\"\"", "\"a\"", "\"b\"", "\"key\"", "\"x y\"", "\"é🙂\"", "\"1,2,3\"", "\"Hello\"", "\"f1\"", "\"f2\""];
const FIELDS: &[&str] = &["f1", "f2", "f3", "a", "b", "key", "x", "y"];

impl<'a> Gen<'a> {
    pub fn new(rng: &'a mut Rng, cfg: GenCfg) -> Self {
        let budget = cfg.size;
        Gen { rng, cfg, vars: Vec::new(), fresh: 0, budget, objs: Vec::new(), in_super_ctx: 0 }
    }

    /// Variables the surrounding text binds (name, type): the generated program may refer to them.
    pub fn with_vars(mut self, vars: Vec<(String, Ty)>) -> Self {
        self.vars.extend(vars);
        self
    }

    fn fresh(&mut self, p: &str) -> String {
        self.fresh += 1;
        format!("{p}{}", self.fresh)
    }

    /// Generates a whole program of (roughly) the wanted type.
    pub fn program(&mut self, ty: &Ty) -> Node {
        if self.cfg.big_heap {
            return self.big_heap_program();
        }
        if let Some(d) = self.cfg.deep {
            return self.deep_program(d);
        }
        self.expr(ty, 0)
    }

    fn big_heap_program(&mut self) -> Node {
        let n = 1200 + self.rng.below(2800);
        let body = self.expr(&Ty::Num, 3);
        let v = self.fresh("i");
        let inner = match self.rng.below(4) {
            0 => format!("{{ a: {v}, b: [{v}, {v} + 1], c: {{ d: \"s\" + {v} }} }}"),
            1 => format!("[{v}, {v} * 2, {{ k: {v} }}]"),
            2 => format!("local o = {{ me:: o, n: {v} }}; o"),
            _ => format!("(function(z) {{ z: z, w: [z] }})({v})"),
        };
        let wrap = match self.rng.below(3) {
            0 => format!("std.length([{inner} for {v} in std.range(0, {n})])"),
            1 => format!("std.foldl(function(acc, {v}) acc + std.length(std.toString({inner})), std.range(0, {n}), 0)"),
            _ => format!("std.length(std.map(function({v}) {inner}, std.range(0, {n})))"),
        };
        Node { ty: Ty::Num, parts: vec![t(format!("{wrap} + ")), P::N(body)] }
    }

    fn deep_program(&mut self, depth: u32) -> Node {
        let body = self.expr(&Ty::Num, 3);
        let shape = match self.rng.below(4) {
            0 => format!("local f(n) = if n <= 0 then 0 else 1 + f(n - 1); f({depth}) + "),
            1 => format!("local g(n) = if n <= 0 then [] else [g(n - 1)]; std.length(std.toString(g({depth}))) + "),
            2 => format!("local h(n) = if n <= 0 then {{}} else {{ x: h(n - 1) }}; std.length(std.manifestJsonEx(h({depth}), \" \")) + "),
            _ => format!("local a(n) = if n <= 0 then 0 else b(n - 1), b(n) = if n <= 0 then 1 else a(n - 1) + 1; a({depth}) + "),
        };
        Node { ty: Ty::Num, parts: vec![t(shape), P::N(body)] }
    }

    fn vars_of(&self, ty: &Ty) -> Vec<String> {
        self.vars.iter().filter(|(_, t)| t == ty || *ty == Ty::Any).map(|(n, _)| n.clone()).collect()
    }

    fn any_ty(&mut self, depth: u32) -> Ty {
        match self.rng.below(if depth > 2 { 4 } else { 7 }) {
            0 => Ty::Num,
            1 => Ty::Str,
            2 => Ty::Bool,
            3 => Ty::Null,
            4 => Ty::Arr(Box::new(Ty::Num)),
            5 => Ty::Obj,
            _ => Ty::Arr(Box::new(Ty::Str)),
        }
    }

    fn leaf(&mut self, ty: &Ty) -> Node {
        let vs = self.vars_of(ty);
        if !vs.is_empty() && self.rng.chance(1, 2) {
            let v = self.rng.pick(&vs).clone();
            return Node::leaf(ty.clone(), v);
        }
        // self.field of an enclosing object
        if let Some(fields) = self.objs.last() {
            let fs: Vec<&(String, Ty)> = fields.iter().filter(|(_, t)| t == ty).collect();
            if !fs.is_empty() && self.rng.chance(1, 3) {
                let (name, _) = self.rng.pick(&fs);
                let base = if self.rng.chance(1, 5) { "$" } else { "self" };
                return Node::leaf(ty.clone(), format!("{base}.{name}"));
            }
        }
        let s = match ty {
            Ty::Num => match self.rng.below(8) {
                0 => "0".to_string(),
                1 => "1".to_string(),
                2 => "-1".to_string(),
                3 => "2.5".to_string(),
                4 => "1e3".to_string(),
                _ => format!("{}", self.rng.below(100)),
            },
            Ty::Str => (*self.rng.pick(STRS)).to_string(),
            Ty::Bool => (if self.rng.chance(1, 2) { "true" } else { "false" }).to_string(),
            Ty::Null => "null".to_string(),
            Ty::Any => {
                let t2 = self.any_ty(3);
                return self.leaf(&t2);
            }
            Ty::Arr(_) => "[]".to_string(),
            Ty::Obj => "{}".to_string(),
            Ty::Fun(..) => min_leaf(ty),
        };
        Node::leaf(ty.clone(), s)
    }

    pub fn expr(&mut self, ty: &Ty, depth: u32) -> Node {
        self.budget -= 1;
        if self.budget <= 0 || depth > 7 {
            return self.leaf(ty);
        }
        // planted failures
        if self.cfg.errors && self.rng.chance(1, 60) {
            let m = self.expr(&Ty::Str, depth + 1);
            return Node { ty: ty.clone(), parts: vec![t("(error "), P::N(m), t(")")] };
        }
        // generic wrappers
        match self.rng.below(14) {
            0 => return self.local_expr(ty, depth),
            1 => {
                let c = self.expr(&Ty::Bool, depth + 1);
                let a = self.expr(ty, depth + 1);
                let b = self.expr(ty, depth + 1);
                return Node { ty: ty.clone(), parts: vec![t("(if "), P::N(c), t(" then "), P::N(a), t(" else "), P::N(b), t(")")] };
            }
            2 if self.cfg.functions => return self.call_expr(ty, depth),
            3 if self.cfg.effects => {
                let m = self.expr(&Ty::Str, depth + 1);
                let a = self.expr(ty, depth + 1);
                return Node { ty: ty.clone(), parts: vec![t("std.trace("), P::N(m), t(", "), P::N(a), t(")")] };
            }
            4 if self.cfg.errors => {
                let c = self.expr(&Ty::Bool, depth + 1);
                let a = self.expr(ty, depth + 1);
                return Node { ty: ty.clone(), parts: vec![t("(assert "), P::N(c), t(" : \"planted\"; "), P::N(a), t(")")] };
            }
            5 if self.cfg.objects => {
                // field access on an object literal containing the wanted type
                let f = (*self.rng.pick(FIELDS)).to_string();
                let o = self.object_with(depth + 1, Some((f.clone(), ty.clone())));
                let acc = if self.rng.chance(1, 3) { format!("[\"{f}\"]") } else { format!(".{f}") };
                return Node { ty: ty.clone(), parts: vec![P::N(o), t(acc)] };
            }
            6 => {
                // index into an array literal
                let a = self.expr(ty, depth + 1);
                let b = self.expr(ty, depth + 1);
                let i = self.rng.below(if self.cfg.errors { 3 } else { 2 });
                return Node { ty: ty.clone(), parts: vec![t("["), P::L(vec![vec![P::N(a)], vec![P::N(b)]], ", "), t(format!("][{i}]"))] };
            }
            7 if self.cfg.natives && self.rng.chance(1, 2) => {
                let a = self.expr(ty, depth + 1);
                let f = *self.rng.pick(&["id", "gcNow", "id", "evalOther", "tryOther", "tryOther"]);
                let f = if self.cfg.errors && self.rng.chance(1, 10) { "fail" } else { f };
                return Node { ty: ty.clone(), parts: vec![t(format!("std.native(\"{f}\")(")), P::N(a), t(")")] };
            }
            8 if !self.cfg.imports.is_empty() => {
                let cands: Vec<(String, Ty)> = self.cfg.imports.iter().filter(|(_, t)| t == ty).cloned().collect();
                if !cands.is_empty() {
                    let (name, _) = self.rng.pick(&cands).clone();
                    return Node::leaf(ty.clone(), format!("(import \"{name}\")"));
                }
            }
            9 if !self.cfg.ext_vars.is_empty() => {
                let cands: Vec<(String, Ty)> = self.cfg.ext_vars.iter().filter(|(_, t)| t == ty).cloned().collect();
                if !cands.is_empty() {
                    let (name, _) = self.rng.pick(&cands).clone();
                    return Node::leaf(ty.clone(), format!("std.extVar(\"{name}\")"));
                }
            }
            _ => {}
        }
        match ty {
            Ty::Num => self.num_expr(depth),
            Ty::Str => self.str_expr(depth),
            Ty::Bool => self.bool_expr(depth),
            Ty::Null => self.leaf(ty),
            Ty::Arr(e) => self.arr_expr(&e.clone(), depth),
            Ty::Obj => self.object_with(depth, None),
            Ty::Fun(k, r) => self.fun_expr(*k, &r.clone(), depth),
            Ty::Any => {
                let t2 = self.any_ty(depth);
                self.expr(&t2, depth)
            }
        }
    }

    fn local_expr(&mut self, ty: &Ty, depth: u32) -> Node {
        let n = 1 + self.rng.usize_below(3);
        let mark = self.vars.len();
        let mut items = Vec::new();
        // declare first (locals of one `local` are mutually visible)
        let mut decls = Vec::new();
        for _ in 0..n {
            let vt = if self.cfg.functions && self.rng.chance(1, 4) {
                Ty::Fun(1 + self.rng.usize_below(2), Box::new(self.any_ty(depth + 1)))
            } else {
                self.any_ty(depth + 1)
            };
            let name = self.fresh("v");
            decls.push((name, vt));
        }
        let recursive = self.rng.chance(1, 4);
        if recursive {
            self.vars.extend(decls.iter().cloned());
        }
        for (name, vt) in &decls {
            let e = if let Ty::Fun(k, r) = vt {
                // sugar form f(p) = body
                let params: Vec<String> = (0..*k).map(|_| self.fresh("p")).collect();
                let m2 = self.vars.len();
                for p in &params {
                    self.vars.push((p.clone(), Ty::Num));
                }
                // recursion only through a guarded call
                let body = self.expr(r, depth + 2);
                self.vars.truncate(m2);
                items.push(vec![t(format!("{name}({}) = ", params.join(", "))), P::N(body)]);
                continue;
            } else if recursive && self.rng.chance(1, 2) {
                // lazily self/mutually referential data (never demanded cyclically by construction of types)
                self.expr(vt, depth + 2)
            } else {
                let saved: Vec<(String, Ty)> = if recursive { Vec::new() } else { Vec::new() };
                let _ = saved;
                self.expr(vt, depth + 1)
            };
            items.push(vec![t(format!("{name} = ")), P::N(e)]);
        }
        if !recursive {
            self.vars.extend(decls.iter().cloned());
        }
        let body = self.expr(ty, depth + 1);
        self.vars.truncate(mark);
        Node { ty: ty.clone(), parts: vec![t("(local "), P::L(items, ", "), t("; "), P::N(body), t(")")] }
    }

    fn call_expr(&mut self, ty: &Ty, depth: u32) -> Node {
        // call a known function variable if one returns the wanted type
        let cands: Vec<(String, usize)> = self
            .vars
            .iter()
            .filter_map(|(n, t)| match t {
                Ty::Fun(k, r) if **r == *ty => Some((n.clone(), *k)),
                _ => None,
            })
            .collect();
        if !cands.is_empty() && self.rng.chance(2, 3) {
            let (name, k) = self.rng.pick(&cands).clone();
            let mut parts = vec![t(format!("{name}("))];
            for i in 0..k {
                if i > 0 {
                    parts.push(t(", "));
                }
                parts.push(P::N(self.expr(&Ty::Num, depth + 1)));
            }
            parts.push(t(if self.rng.chance(1, 6) { ") tailstrict" } else { ")" }));
            return Node { ty: ty.clone(), parts: vec![t("("), P::N(Node { ty: ty.clone(), parts }), t(")")] };
        }
        // immediately applied function literal with defaults / named args
        let k = 1 + self.rng.usize_below(2);
        let params: Vec<String> = (0..k).map(|_| self.fresh("p")).collect();
        let ptys: Vec<Ty> = (0..k).map(|_| self.any_ty(depth + 1)).collect();
        let mark = self.vars.len();
        for (p, pt) in params.iter().zip(ptys.iter()) {
            self.vars.push((p.clone(), pt.clone()));
        }
        let body = self.expr(ty, depth + 1);
        self.vars.truncate(mark);
        let with_default = self.rng.chance(1, 3);
        let named = self.rng.chance(1, 3);
        let mut parts = vec![t("(function(")];
        for (i, p) in params.iter().enumerate() {
            if i > 0 {
                parts.push(t(", "));
            }
            if with_default && i == k - 1 {
                parts.push(t(format!("{p} = ")));
                parts.push(P::N(self.expr(&ptys[i], depth + 1)));
            } else {
                parts.push(t(p.clone()));
            }
        }
        parts.push(t(") "));
        parts.push(P::N(body));
        parts.push(t(")("));
        let nargs = if with_default && self.rng.chance(1, 2) { k - 1 } else { k };
        for i in 0..nargs {
            if i > 0 {
                parts.push(t(", "));
            }
            if named {
                parts.push(t(format!("{} = ", params[i])));
            }
            parts.push(P::N(self.expr(&ptys[i], depth + 1)));
        }
        parts.push(t(")"));
        Node { ty: ty.clone(), parts }
    }

    fn fun_expr(&mut self, k: usize, r: &Ty, depth: u32) -> Node {
        let params: Vec<String> = (0..k).map(|_| self.fresh("p")).collect();
        let mark = self.vars.len();
        for p in &params {
            self.vars.push((p.clone(), Ty::Num));
        }
        let body = self.expr(r, depth + 1);
        self.vars.truncate(mark);
        Node { ty: Ty::Fun(k, Box::new(r.clone())), parts: vec![t(format!("(function({}) ", params.join(", "))), P::N(body), t(")")] }
    }

    fn bin(&mut self, ty: Ty, l: Node, op: &str, r: Node) -> Node {
        Node { ty, parts: vec![t("("), P::N(l), t(format!(" {op} ")), P::N(r), t(")")] }
    }

    fn call1(&mut self, ty: Ty, f: &str, args: Vec<Node>) -> Node {
        let mut parts = vec![t(format!("{f}("))];
        for (i, a) in args.into_iter().enumerate() {
            if i > 0 {
                parts.push(t(", "));
            }
            parts.push(P::N(a));
        }
        parts.push(t(")"));
        Node { ty, parts }
    }

    fn lam(&mut self, params: &[(&str, Ty)], ret: &Ty, depth: u32) -> Node {
        let names: Vec<String> = params.iter().map(|(p, _)| self.fresh(p)).collect();
        let mark = self.vars.len();
        for (n, (_, pt)) in names.iter().zip(params.iter()) {
            self.vars.push((n.clone(), pt.clone()));
        }
        let body = self.expr(ret, depth + 1);
        self.vars.truncate(mark);
        Node { ty: Ty::Fun(params.len(), Box::new(ret.clone())), parts: vec![t(format!("function({}) ", names.join(", "))), P::N(body)] }
    }

    fn num_expr(&mut self, depth: u32) -> Node {
        let d = depth + 1;
        let std_ok = self.cfg.stdlib;
        match self.rng.below(if std_ok { 16 } else { 6 }) {
            0 | 1 => {
                let op = *self.rng.pick(&["+", "-", "*"]);
                let l = self.expr(&Ty::Num, d);
                let r = self.expr(&Ty::Num, d);
                self.bin(Ty::Num, l, op, r)
            }
            2 => {
                let l = self.expr(&Ty::Num, d);
                let k = 1 + self.rng.below(9);
                let op = *self.rng.pick(&["%", "/"]);
                let r = Node::leaf(Ty::Num, if self.cfg.errors && self.rng.chance(1, 12) { "0".to_string() } else { k.to_string() });
                self.bin(Ty::Num, l, op, r)
            }
            3 => {
                let l = self.expr(&Ty::Num, d);
                let op = *self.rng.pick(&["&", "|", "^", "<<", ">>"]);
                let r = Node::leaf(Ty::Num, self.rng.below(8).to_string());
                let l = self.call1(Ty::Num, "std.floor", vec![l]);
                self.bin(Ty::Num, l, op, r)
            }
            4 => {
                let e = self.leaf(&Ty::Num);
                Node { ty: Ty::Num, parts: vec![t("(-"), P::N(e), t(")")] }
            }
            5 => self.leaf(&Ty::Num),
            6 => {
                let et = self.any_ty(d);
                let a = self.expr(&Ty::Arr(Box::new(et)), d);
                self.call1(Ty::Num, "std.length", vec![a])
            }
            7 => {
                let f = self.lam(&[("acc", Ty::Num), ("x", Ty::Num)], &Ty::Num, d);
                let a = self.expr(&Ty::Arr(Box::new(Ty::Num)), d);
                let z = self.expr(&Ty::Num, d);
                let name = *self.rng.pick(&["std.foldl", "std.foldr"]);
                self.call1(Ty::Num, name, vec![f, a, z])
            }
            8 => {
                let a = self.expr(&Ty::Arr(Box::new(Ty::Num)), d);
                let name = *self.rng.pick(&["std.sum", "std.length", "std.sum"]);
                self.call1(Ty::Num, name, vec![a])
            }
            9 => {
                let a = self.expr(&Ty::Arr(Box::new(Ty::Num)), d);
                let z = self.expr(&Ty::Num, d);
                let name = *self.rng.pick(&["std.minArray", "std.maxArray"]);
                let mut n = self.call1(Ty::Num, name, vec![a]);
                // onEmpty keeps it total
                n.parts.pop();
                n.parts.push(t(", onEmpty="));
                n.parts.push(P::N(z));
                n.parts.push(t(")"));
                n
            }
            10 => {
                let s = self.expr(&Ty::Str, d);
                self.call1(Ty::Num, "std.length", vec![s])
            }
            11 => {
                let o = self.expr(&Ty::Obj, d);
                self.call1(Ty::Num, "std.length", vec![o])
            }
            12 => {
                let a = self.expr(&Ty::Num, d);
                let b = self.expr(&Ty::Num, d);
                let name = *self.rng.pick(&["std.max", "std.min", "std.pow", "std.mod"]);
                if name == "std.pow" || name == "std.mod" {
                    let b = Node::leaf(Ty::Num, (1 + self.rng.below(3)).to_string());
                    self.call1(Ty::Num, name, vec![a, b])
                } else {
                    self.call1(Ty::Num, name, vec![a, b])
                }
            }
            13 => {
                let a = self.expr(&Ty::Arr(Box::new(Ty::Num)), d);
                let x = self.expr(&Ty::Num, d);
                self.call1(Ty::Num, "std.count", vec![a, x])
            }
            14 => {
                let a = self.expr(&Ty::Num, d);
                let name = *self.rng.pick(&["std.abs", "std.floor", "std.ceil", "std.round", "std.sign"]);
                self.call1(Ty::Num, name, vec![a])
            }
            _ => {
                let s = Node::leaf(Ty::Str, format!("\"{}\"", self.rng.below(1000)));
                self.call1(Ty::Num, "std.parseInt", vec![s])
            }
        }
    }

    fn str_expr(&mut self, depth: u32) -> Node {
        let d = depth + 1;
        let std_ok = self.cfg.stdlib;
        match self.rng.below(if std_ok { 18 } else { 4 }) {
            0 => {
                let l = self.expr(&Ty::Str, d);
                let r = self.expr(&Ty::Str, d);
                self.bin(Ty::Str, l, "+", r)
            }
            1 => {
                // implicit coercion
                let l = self.expr(&Ty::Str, d);
                let r = self.expr(&Ty::Any, d);
                self.bin(Ty::Str, l, "+", r)
            }
            2 => self.leaf(&Ty::Str),
            3 => {
                let s = self.expr(&Ty::Str, d);
                let n = self.expr(&Ty::Num, d);
                Node { ty: Ty::Str, parts: vec![t("(\"%s-%d\" % ["), P::N(s), t(", std.floor("), P::N(n), t(")])")] }
            }
            4 => {
                let a = self.expr(&Ty::Any, d);
                self.call1(Ty::Str, "std.toString", vec![a])
            }
            5 => {
                let a = self.expr(&Ty::Arr(Box::new(Ty::Str)), d);
                let sep = self.leaf(&Ty::Str);
                self.call1(Ty::Str, "std.join", vec![sep, a])
            }
            6 => {
                let a = self.expr(&Ty::Any, d);
                let name = *self.rng.pick(&["std.manifestJson", "std.manifestJsonMinified", "std.manifestYamlDoc", "std.manifestPython"]);
                self.call1(Ty::Str, name, vec![a])
            }
            7 => {
                let a = self.expr(&Ty::Any, d);
                self.call1(Ty::Str, "std.type", vec![a])
            }
            8 => {
                let s = self.expr(&Ty::Str, d);
                let name = *self.rng.pick(&["std.asciiUpper", "std.asciiLower", "std.md5", "std.base64", "std.escapeStringJson", "std.trim"]);
                self.call1(Ty::Str, name, vec![s])
            }
            9 => {
                let s = self.expr(&Ty::Str, d);
                let a = self.rng.below(3);
                let b = self.rng.below(4);
                Node { ty: Ty::Str, parts: vec![t("std.substr("), P::N(s), t(format!(", {a}, {b})"))] }
            }
            10 => {
                let s = self.expr(&Ty::Str, d);
                let a = self.leaf(&Ty::Str);
                let b = self.leaf(&Ty::Str);
                self.call1(Ty::Str, "std.strReplace", vec![s, a, b])
            }
            11 => {
                let o = self.expr(&Ty::Obj, d);
                let name = *self.rng.pick(&["std.manifestJsonEx", "std.manifestTomlEx"]);
                let ind = Node::leaf(Ty::Str, "\"  \"");
                self.call1(Ty::Str, name, vec![o, ind])
            }
            12 => {
                let a = self.expr(&Ty::Arr(Box::new(Ty::Any)), d);
                self.call1(Ty::Str, "std.manifestYamlStream", vec![a])
            }
            13 => {
                let n = self.rng.below(26);
                Node::leaf(Ty::Str, format!("std.char({})", 65 + n))
            }
            14 => {
                let s = self.expr(&Ty::Str, d);
                Node { ty: Ty::Str, parts: vec![t("std.format(\"[%5s|%-4s]\", ["), P::N(s), t(", \"z\"])")] }
            }
            15 => {
                let a = self.expr(&Ty::Arr(Box::new(Ty::Str)), d);
                self.call1(Ty::Str, "std.deepJoin", vec![a])
            }
            16 => {
                // object-driven formatting and the remaining manifesters
                let o = self.object_with(d, Some(("f1".to_string(), Ty::Num)));
                match self.rng.below(4) {
                    0 => Node { ty: Ty::Str, parts: vec![t("(\"%(f1)s|%(f1)5.1f\" % "), P::N(o), t(")")] },
                    1 => Node { ty: Ty::Str, parts: vec![t("std.manifestIni({ main: { a: 1 }, sections: { s: "), P::N(o), t(" } })")] },
                    2 => Node { ty: Ty::Str, parts: vec![t("std.manifestXmlJsonml([\"t\", { k: \"v\" }, std.toString("), P::N(o), t(".f1)])")] },
                    _ => Node { ty: Ty::Str, parts: vec![t("std.manifestPythonVars("), P::N(o), t(")")] },
                }
            }
            _ => {
                let o = self.expr(&Ty::Obj, d);
                let dflt = self.expr(&Ty::Str, d);
                let f = *self.rng.pick(FIELDS);
                Node { ty: Ty::Str, parts: vec![t("std.toString(std.get("), P::N(o), t(format!(", \"{f}\", ")), P::N(dflt), t("))")] }
            }
        }
    }

    fn bool_expr(&mut self, depth: u32) -> Node {
        let d = depth + 1;
        let std_ok = self.cfg.stdlib;
        match self.rng.below(if std_ok { 13 } else { 7 }) {
            0 => {
                let op = *self.rng.pick(&["<", "<=", ">", ">=", "==", "!="]);
                let l = self.expr(&Ty::Num, d);
                let r = self.expr(&Ty::Num, d);
                self.bin(Ty::Bool, l, op, r)
            }
            1 => {
                let op = *self.rng.pick(&["<", "==", "!=", ">="]);
                let l = self.expr(&Ty::Str, d);
                let r = self.expr(&Ty::Str, d);
                self.bin(Ty::Bool, l, op, r)
            }
            2 => {
                let ty = self.any_ty(d);
                let op = *self.rng.pick(&["==", "!="]);
                let l = self.expr(&ty, d);
                let r = self.expr(&ty, d);
                self.bin(Ty::Bool, l, op, r)
            }
            3 => {
                let op = *self.rng.pick(&["&&", "||"]);
                let l = self.expr(&Ty::Bool, d);
                let r = self.expr(&Ty::Bool, d);
                self.bin(Ty::Bool, l, op, r)
            }
            4 => {
                let e = self.expr(&Ty::Bool, d);
                Node { ty: Ty::Bool, parts: vec![t("(!"), P::N(e), t(")")] }
            }
            5 => self.leaf(&Ty::Bool),
            6 => {
                let o = self.expr(&Ty::Obj, d);
                let f = *self.rng.pick(FIELDS);
                Node { ty: Ty::Bool, parts: vec![t(format!("(\"{f}\" in ")), P::N(o), t(")")] }
            }
            7 => {
                let et = if self.rng.chance(1, 2) { Ty::Num } else { Ty::Str };
                let op = *self.rng.pick(&["<", "<=", "==", ">"]);
                let l = self.expr(&Ty::Arr(Box::new(et.clone())), d);
                let r = self.expr(&Ty::Arr(Box::new(et)), d);
                self.bin(Ty::Bool, l, op, r)
            }
            8 => {
                let a = self.expr(&Ty::Arr(Box::new(Ty::Num)), d);
                let x = self.expr(&Ty::Num, d);
                let name = *self.rng.pick(&["std.member", "std.contains"]);
                self.call1(Ty::Bool, name, vec![a, x])
            }
            9 => {
                let o = self.expr(&Ty::Obj, d);
                let f = Node::leaf(Ty::Str, format!("\"{}\"", self.rng.pick(FIELDS)));
                let name = *self.rng.pick(&["std.objectHas", "std.objectHasAll"]);
                self.call1(Ty::Bool, name, vec![o, f])
            }
            10 => {
                let a = self.expr(&Ty::Arr(Box::new(Ty::Bool)), d);
                let name = *self.rng.pick(&["std.all", "std.any"]);
                self.call1(Ty::Bool, name, vec![a])
            }
            11 => {
                let a = self.expr(&Ty::Any, d);
                let name = *self.rng.pick(&["std.isString", "std.isNumber", "std.isArray", "std.isObject", "std.isFunction", "std.isBoolean"]);
                self.call1(Ty::Bool, name, vec![a])
            }
            _ => {
                let a = self.expr(&Ty::Obj, d);
                let b = self.expr(&Ty::Obj, d);
                self.call1(Ty::Bool, "std.equals", vec![a, b])
            }
        }
    }

    fn arr_expr(&mut self, et: &Ty, depth: u32) -> Node {
        let d = depth + 1;
        let aty = Ty::Arr(Box::new(et.clone()));
        let std_ok = self.cfg.stdlib;
        let choice = self.rng.below(if std_ok { 21 } else { 5 });
        match choice {
            0 | 1 => {
                let n = self.rng.usize_below(5);
                let items: Vec<Vec<P>> = (0..n).map(|_| vec![P::N(self.expr(et, d))]).collect();
                Node { ty: aty, parts: vec![t("["), P::L(items, ", "), t("]")] }
            }
            2 => {
                let l = self.expr(&aty, d);
                let r = self.expr(&aty, d);
                self.bin(aty, l, "+", r)
            }
            3 if self.cfg.comprehensions => {
                // [e for x in xs if c for y in ys]
                let st = self.any_ty(d);
                let xs = self.expr(&Ty::Arr(Box::new(st.clone())), d);
                let x = self.fresh("x");
                let mark = self.vars.len();
                self.vars.push((x.clone(), st));
                let mut clauses: Vec<Vec<P>> = Vec::new();
                if self.rng.chance(1, 2) {
                    let c = self.expr(&Ty::Bool, d);
                    clauses.push(vec![t(" if "), P::N(c)]);
                }
                if self.rng.chance(1, 3) {
                    let ys = self.expr(&Ty::Arr(Box::new(Ty::Num)), d);
                    let y = self.fresh("y");
                    self.vars.push((y.clone(), Ty::Num));
                    clauses.push(vec![t(format!(" for {y} in ")), P::N(ys)]);
                }
                let e = self.expr(et, d);
                self.vars.truncate(mark);
                Node { ty: aty, parts: vec![t("["), P::N(e), t(format!(" for {x} in ")), P::N(xs), P::L(clauses, ""), t("]")] }
            }
            4 => {
                let a = self.expr(&aty, d);
                let lo = self.rng.below(3);
                let hi = self.rng.below(5);
                let step = 1 + self.rng.below(2);
                Node { ty: aty, parts: vec![P::N(a), t(match self.rng.below(3) { 0 => format!("[{lo}:{hi}]"), 1 => format!("[{lo}:]"), _ => format!("[{lo}:{hi}:{step}]") })] }
            }
            5 => {
                let st = self.any_ty(d);
                let f = self.lam(&[("x", st.clone())], et, d);
                let xs = self.expr(&Ty::Arr(Box::new(st)), d);
                self.call1(aty, "std.map", vec![f, xs])
            }
            6 => {
                let f = self.lam(&[("x", et.clone())], &Ty::Bool, d);
                let xs = self.expr(&aty, d);
                self.call1(aty, "std.filter", vec![f, xs])
            }
            7 => {
                let n = Node::leaf(Ty::Num, self.rng.below(6).to_string());
                let f = self.lam(&[("i", Ty::Num)], et, d);
                self.call1(aty, "std.makeArray", vec![n, f])
            }
            8 if *et == Ty::Num => {
                let a = self.rng.below(5);
                let b = a + self.rng.below(8);
                Node::leaf(aty, format!("std.range({a}, {b})"))
            }
            9 if matches!(et, Ty::Num | Ty::Str) => {
                let a = self.expr(&aty, d);
                let name = *self.rng.pick(&["std.sort", "std.uniq", "std.set", "std.reverse"]);
                self.call1(aty, name, vec![a])
            }
            10 if *et == Ty::Obj => {
                // sort objects by a key function
                let a = self.expr(&aty, d);
                let name = *self.rng.pick(&["std.sort", "std.set", "std.uniq"]);
                let mut n = self.call1(aty.clone(), name, vec![a]);
                n.parts.pop();
                n.parts.push(t(", keyF=function(o) std.length(o))"));
                n
            }
            11 => {
                let a = self.expr(&aty, d);
                let b = self.expr(&aty, d);
                Node { ty: aty, parts: vec![t("std.flattenArrays(["), P::N(a), t(", "), P::N(b), t("])")] }
            }
            12 if matches!(et, Ty::Num | Ty::Str) => {
                let a = self.expr(&aty, d);
                let b = self.expr(&aty, d);
                let name = *self.rng.pick(&["std.setUnion", "std.setInter", "std.setDiff"]);
                let a = self.call1(aty.clone(), "std.set", vec![a]);
                let b = self.call1(aty.clone(), "std.set", vec![b]);
                self.call1(aty, name, vec![a, b])
            }
            13 if *et == Ty::Str => {
                let o = self.expr(&Ty::Obj, d);
                let name = *self.rng.pick(&["std.objectFields", "std.objectFieldsAll"]);
                self.call1(aty, name, vec![o])
            }
            14 if *et == Ty::Str => {
                let s = self.expr(&Ty::Str, d);
                match self.rng.below(2) {
                    0 => self.call1(aty, "std.stringChars", vec![s]),
                    _ => {
                        let sep = Node::leaf(Ty::Str, "\",\"");
                        self.call1(aty, "std.split", vec![s, sep])
                    }
                }
            }
            15 => {
                let st = self.any_ty(d);
                let f = self.lam(&[("x", st.clone())], &aty, d);
                let xs = self.expr(&Ty::Arr(Box::new(st)), d);
                self.call1(aty, "std.flatMap", vec![f, xs])
            }
            16 => {
                let st = self.any_ty(d);
                let f = self.lam(&[("i", Ty::Num), ("x", st.clone())], et, d);
                let xs = self.expr(&Ty::Arr(Box::new(st)), d);
                self.call1(aty, "std.mapWithIndex", vec![f, xs])
            }
            17 => {
                let a = self.expr(&aty, d);
                let n = Node::leaf(Ty::Num, self.rng.below(3).to_string());
                self.call1(aty, "std.repeat", vec![a, n])
            }
            18 => {
                let st = self.any_ty(d);
                let ff = self.lam(&[("x", st.clone())], &Ty::Bool, d);
                let fm = self.lam(&[("x", st.clone())], et, d);
                let xs = self.expr(&Ty::Arr(Box::new(st)), d);
                self.call1(aty, "std.filterMap", vec![ff, fm, xs])
            }
            19 if std_ok => {
                // a second tier of array builtins (state kept across many evaluator steps)
                match self.rng.below(10) {
                    0 => {
                        let o = self.expr(&Ty::Obj, d);
                        let fname = *self.rng.pick(&["std.objectValues", "std.objectValuesAll", "std.objectKeysValues"]);
                        let inner = self.call1(Ty::Arr(Box::new(Ty::Any)), fname, vec![o]);
                        if *et == Ty::Any { inner } else { let f = self.lam(&[("x", Ty::Any)], et, d); self.call1(aty, "std.map", vec![f, inner]) }
                    }
                    1 => {
                        let a = self.expr(&aty, d);
                        let i = Node::leaf(Ty::Num, self.rng.below(3).to_string());
                        self.call1(aty, "std.removeAt", vec![a, i])
                    }
                    2 => {
                        let a = self.expr(&aty, d);
                        let x = self.expr(et, d);
                        self.call1(aty, "std.remove", vec![a, x])
                    }
                    3 => {
                        let a = self.expr(&aty, d);
                        let b = self.expr(&aty, d);
                        Node { ty: aty, parts: vec![t("std.flattenDeepArray(["), P::N(a), t(", ["), P::N(b), t(", []]])")] }
                    }
                    4 => {
                        let f = self.lam(&[("x", et.clone()), ("acc", Ty::Arr(Box::new(et.clone())))], &aty, d);
                        let a = self.expr(&aty, d);
                        Node { ty: aty, parts: vec![t("std.foldr("), P::N(f), t(", "), P::N(a), t(", [])")] }
                    }
                    5 if *et == Ty::Str => {
                        let s = self.expr(&Ty::Str, d);
                        self.call1(aty, "std.stringChars", vec![s])
                    }
                    6 if *et == Ty::Str => {
                        let s = self.expr(&Ty::Str, d);
                        Node { ty: aty, parts: vec![t("std.splitLimit("), P::N(s), t(", \" \", 2)")] }
                    }
                    7 if *et == Ty::Num => {
                        let a = self.expr(&aty, d);
                        let x = self.expr(&Ty::Num, d);
                        self.call1(aty, "std.find", vec![x, a])
                    }
                    8 => {
                        let a = self.expr(&aty, d);
                        let f = self.lam(&[("x", et.clone())], &Ty::Num, d);
                        let mut n = self.call1(aty.clone(), "std.sort", vec![a]);
                        n.parts.pop();
                        n.parts.push(t(", keyF="));
                        n.parts.push(P::N(f));
                        n.parts.push(t(")"));
                        n
                    }
                    _ => {
                        let a = self.expr(&aty, d);
                        Node { ty: aty, parts: vec![t("(local arr = "), P::N(a), t("; [arr[i] for i in std.range(0, std.length(arr) - 1) if std.setMember(i % 2, [0])])")] }
                    }
                }
            }
            _ => {
                let n = self.rng.usize_below(4);
                let items: Vec<Vec<P>> = (0..n).map(|_| vec![P::N(self.expr(et, d))]).collect();
                Node { ty: aty, parts: vec![t("["), P::L(items, ", "), t("]")] }
            }
        }
    }

    /// Object expression; `must` forces a visible-or-hidden field of a type.
    fn object_with(&mut self, depth: u32, must: Option<(String, Ty)>) -> Node {
        let d = depth + 1;
        if !self.cfg.objects && must.is_none() {
            return self.leaf(&Ty::Obj);
        }
        let std_ok = self.cfg.stdlib;
        if must.is_none() {
            match self.rng.below(if std_ok { 14 } else { 6 }) {
                0 if self.cfg.inherit => {
                    let l = self.expr(&Ty::Obj, d);
                    let r = self.object_lit(d, None, true);
                    return self.bin(Ty::Obj, l, "+", r);
                }
                2 if self.cfg.comprehensions => {
                    // comprehension fields that reach `self` lazily: { [k]: if k == "a" then E else [E, self.a] for k in [...] }
                    let e1 = self.expr(&Ty::Any, d);
                    let e2 = self.expr(&Ty::Any, d);
                    let me = *self.rng.pick(&["self.a", "$.a", "self[\"a\"]", "std.length(std.objectFields(self))"]);
                    let wrap = if self.rng.chance(1, 3) { "function() " } else { "" };
                    return Node { ty: Ty::Obj, parts: vec![t("{ [ck]: if ck == \"a\" then "), P::N(e1), t(format!(" else {wrap}[")), P::N(e2), t(format!(", {me}] for ck in [\"a\", \"b\", \"c\"] }}"))] };
                }
                1 if self.cfg.comprehensions => {
                    let ks = self.expr(&Ty::Arr(Box::new(Ty::Str)), d);
                    let k = self.fresh("k");
                    let mark = self.vars.len();
                    self.vars.push((k.clone(), Ty::Str));
                    let v = self.expr(&Ty::Any, d);
                    self.vars.truncate(mark);
                    // uniq keys to avoid duplicate-field errors unless errors are allowed
                    let ks = if self.cfg.errors { ks } else { self.call1(Ty::Arr(Box::new(Ty::Str)), "std.set", vec![ks]) };
                    return Node { ty: Ty::Obj, parts: vec![t(format!("{{ [{k}]: ")), P::N(v), t(format!(" for {k} in ")), P::N(ks), t(" }")] };
                }
                6 => {
                    let f = self.lam(&[("k", Ty::Str), ("v", Ty::Any)], &Ty::Any, d);
                    let o = self.expr(&Ty::Obj, d);
                    return self.call1(Ty::Obj, "std.mapWithKey", vec![f, o]);
                }
                7 => {
                    let a = self.expr(&Ty::Obj, d);
                    let b = self.expr(&Ty::Obj, d);
                    return self.call1(Ty::Obj, "std.mergePatch", vec![a, b]);
                }
                8 => {
                    let a = self.expr(&Ty::Obj, d);
                    let f = Node::leaf(Ty::Str, format!("\"{}\"", self.rng.pick(FIELDS)));
                    return self.call1(Ty::Obj, "std.objectRemoveKey", vec![a, f]);
                }
                9 => {
                    let a = self.expr(&Ty::Obj, d);
                    return self.call1(Ty::Obj, "std.prune", vec![a]);
                }
                10 => {
                    return Node::leaf(Ty::Obj, "std.parseJson(\"{\\\"a\\\": [1, {\\\"b\\\": null}], \\\"f1\\\": \\\"s\\\"}\")");
                }
                11 => {
                    return Node::leaf(Ty::Obj, "std.parseYaml(\"a: [1, 2]\\nf2: {x: y}\")");
                }
                _ => {}
            }
        }
        self.object_lit(d, must, false)
    }

    fn object_lit(&mut self, depth: u32, must: Option<(String, Ty)>, has_super: bool) -> Node {
        let d = depth + 1;
        let nf = self.rng.usize_below(4) + usize::from(must.is_some());
        let mut table: Vec<(String, Ty)> = Vec::new();
        let mut names: Vec<String> = Vec::new();
        if let Some((n, ty)) = &must {
            table.push((n.clone(), ty.clone()));
            names.push(n.clone());
        }
        while table.len() < nf {
            let n = (*self.rng.pick(FIELDS)).to_string();
            if names.contains(&n) {
                break;
            }
            let ty = self.any_ty(d);
            names.push(n.clone());
            table.push((n, ty));
        }
        self.objs.push(table.clone());
        if has_super {
            self.in_super_ctx += 1;
        }
        let mut items: Vec<Vec<P>> = Vec::new();
        let mark = self.vars.len();
        // object locals
        if self.rng.chance(1, 4) {
            let name = self.fresh("ol");
            let ty = self.any_ty(d);
            let e = self.expr(&ty, d);
            items.push(vec![t(format!("local {name} = ")), P::N(e)]);
            self.vars.push((name, ty));
        }
        for (i, (name, ty)) in table.iter().enumerate() {
            let forced = must.is_some() && i == 0;
            let vis = if forced { ":" } else { *self.rng.pick(&[":", ":", ":", "::", ":::"]) };
            let plus = has_super && !forced && matches!(ty, Ty::Num | Ty::Str | Ty::Arr(_) | Ty::Obj) && self.rng.chance(1, 3);
            let computed = !forced && self.rng.chance(1, 8);
            let mut e = self.expr(ty, d);
            if has_super && !forced && self.rng.chance(1, 5) && matches!(ty, Ty::Num) {
                e = Node { ty: ty.clone(), parts: vec![t(format!("(if \"{name}\" in super then super.{name} else 0) + ")), P::N(e)] };
            }
            let key = if computed { format!("[\"{name}\"]") } else { name.clone() };
            if self.cfg.functions && !forced && !plus && self.rng.chance(1, 10) {
                // method sugar
                items.push(vec![t(format!("{key}(mp){vis} ")), P::N(e)]);
            } else {
                items.push(vec![t(format!("{key}{}{vis} ", if plus { "+" } else { "" })), P::N(e)]);
            }
        }
        // asserts
        if self.rng.chance(1, 5) {
            let c = if self.cfg.errors && self.rng.chance(1, 3) { self.expr(&Ty::Bool, d) } else { Node::leaf(Ty::Bool, format!("std.length(self) >= 0")) };
            items.push(vec![t("assert "), P::N(c), t(" : \"obj assert\"")]);
        }
        // cycles: hidden field holding a closure over self / the object itself
        if self.cfg.cycles && self.rng.chance(1, 4) {
            let n = self.fresh("cyc");
            items.push(vec![t(format!("{n}:: function() self"))]);
        }
        if self.cfg.cycles && self.rng.chance(1, 6) {
            let n = self.fresh("me");
            items.push(vec![t(format!("{n}:: [self, $]"))]);
        }
        self.vars.truncate(mark);
        if has_super {
            self.in_super_ctx -= 1;
        }
        self.objs.pop();
        // keep the forced field undroppable: put it outside the list
        if must.is_some() {
            let first = items.remove(if matches!(items[0][0], P::T(ref s) if s.starts_with("local ")) { 1 } else { 0 });
            let mut parts = vec![t("{ ")];
            parts.extend(first);
            if !items.is_empty() {
                parts.push(t(", "));
                parts.push(P::L(items, ", "));
            }
            parts.push(t(" }"));
            return Node { ty: Ty::Obj, parts };
        }
        Node { ty: Ty::Obj, parts: vec![t("{ "), P::L(items, ", "), t(" }")] }
    }
}

/// Objects built by comprehensions whose field values reach `self` / `$` / `super` lazily, consumed through a field
/// of a temporary or through a method that escapes the object (the object is then reachable only through the
/// field's own environment).
pub const COMPREHENSION_SNIPPETS: &[&str] = &[
    "{ [k]: if k == \"a\" then 1 else std.length(std.range(0, 40)) + self.a for k in [\"a\", \"b\"] }.b",
    "local mk() = { [k]: if k == \"n\" then 41 else function() self.n + 1 for k in [\"n\", \"inc\"] }; local f = mk().inc; std.length(std.range(0, 60)) * 0 + f()",
    "local fs = [{ [k]: if k == \"v\" then i else function(d) $.v + d for k in [\"v\", \"add\"] }.add for i in std.range(0, 20)]; std.foldl(function(acc, f) acc + f(1), fs, 0)",
    "local base = { [k]: 10 for k in [\"x\", \"y\"] }; (base + { [k]: super[k] + std.length(std.objectFields(self)) for k in [\"x\"] }).x",
    "std.map(function(o) o.get(), [{ [k]: if k == \"val\" then [i, i] else function() std.length(self.val) + i for k in [\"val\", \"get\"] } for i in std.range(0, 15)])",
    "local o = { [\"f\" + i]: if i == 0 then 7 else self.f0 * i for i in std.range(0, 5) }; [o.f3, { [k]: self for k in [\"me\"] }.me.me == null]",
    "{ [k]: { inner: $[if k == \"p\" then \"q\" else \"p\"] == null, n: std.length(std.range(0, 30)) } for k in [\"p\", \"q\"] }.p.n",
];

/// Deep equality / ordering of freshly built temporaries inside loops: compared values become garbage at once, so under
/// dense collection schedules their storage is reused by the next iteration's values.
pub const COMPARE_SNIPPETS: &[&str] = &[
    "std.length([i for i in std.range(0, 120) if [i, [i]] == [i, [i]]]) * 1000 + std.length([i for i in std.range(0, 120) if [i, [i]] == [i, [i + 1]]])",
    "std.length([i for i in std.range(0, 150) if { a: [i], b: { c: i } } == { a: [i], b: { c: i } }]) * 1000 + std.length([i for i in std.range(0, 150) if { a: [i] } == { a: [i + 1] }])",
    "std.foldl(function(acc, i) acc + (if std.equals([i, { k: i }], [i, { k: i }]) then 1 else 0) + (if std.equals({ k: [i] }, { k: [i, i] }) then 1000 else 0), std.range(0, 100), 0)",
    "local mk(i) = { id: i, tags: [i % 3, \"t\" + i] }; std.length([i for i in std.range(0, 90) if mk(i) == mk(i)]) * 1000 + std.length([i for i in std.range(0, 90) if mk(i) == mk(i + 3)])",
    "std.length(std.filter(function(i) [[i]] < [[i + 1]] && !([[i]] < [[i]]) && [i, \"x\"] != [i, \"y\"], std.range(0, 100)))",
    "std.length(std.uniq(std.sort([{ k: i % 5, v: [i % 2] } for i in std.range(0, 60)], function(o) o.k), function(o) [o.k, o.v]))",
    "std.length(std.set([[i % 4, [i % 2]] for i in std.range(0, 80)], function(x) x)) * 100 + std.length(std.setInter(std.set([[i] for i in std.range(0, 40)], function(x) x), std.set([[i * 2] for i in std.range(0, 40)], function(x) x), function(x) x))",
    "local a = [{ x: [i] } for i in std.range(0, 50)]; std.length([i for i in std.range(0, 49) if a[i] == { x: [i] }]) * 100 + std.length([i for i in std.range(0, 49) if a[i] == a[i + 1]])",
];

/// Hand-written cyclic / closure-heavy snippets (the collector's cyclic-garbage case).
pub const CYCLIC_SNIPPETS: &[&str] = &[
    "local o = { me:: o, n: 1 }; o",
    "local f = function() g, g = function() f; std.length([f, g, f()])",
    "local o = { a: 1, clos:: function() self.a + 1, b: self.clos() }; o",
    "local mk(n) = { n: n, next:: if n > 0 then mk(n - 1) else null, all:: [self, self.next] }; mk(6) { extra: std.length(super.all) }",
    "local a = { b:: b, v: 1 }, b = { a:: a, v: 2 }; [a, b, a.b.a.b.v]",
    "local xs = [function() xs, function() std.length(xs)]; xs[1]()",
    "{ local this = self, items: [{ parent:: this, i: i } for i in std.range(0, 5)], n: std.length(self.items) }",
    "local base = { f: 1, g:: self }; local d = base + { f+: 1, h:: super.g }; [d.f, std.length(std.objectFieldsAll(d))]",
    "std.foldl(function(acc, i) { prev:: acc, i: i }, std.range(0, 20), {})",
    "local y = { x:: y, z: [y.w, 2], w: 3 }; y.z",
];

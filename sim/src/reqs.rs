//! Request alphabet shared by `sim-gc` (C03) and `sim-hist` (C11), and its
//! executor on one long-lived program state.

use rsjsonnet_lang::program::{Thunk, Value};

use crate::json::Json;
use crate::prog::{Ctx, Out};

/// Abstract thunk operand meaning "the most recently produced live thunk".
pub const LAST_THUNK: u32 = u32::MAX;

#[derive(Clone, Debug, Default, PartialEq)]
pub struct Fault {
    /// frame limit for this request only
    pub stack: Option<usize>,
    pub import_fail: Vec<String>,
    pub native_fail: Vec<String>,
}

impl Fault {
    pub fn is_none(&self) -> bool {
        self.stack.is_none() && self.import_fail.is_empty() && self.native_fail.is_empty()
    }
    pub fn to_json(&self) -> Json {
        let mut f = Vec::new();
        if let Some(s) = self.stack {
            f.push(("stack", Json::int(s as i64)));
        }
        if !self.import_fail.is_empty() {
            f.push(("import_fail", Json::Arr(self.import_fail.iter().map(Json::str).collect())));
        }
        if !self.native_fail.is_empty() {
            f.push(("native_fail", Json::Arr(self.native_fail.iter().map(Json::str).collect())));
        }
        Json::obj(f)
    }
    pub fn from_json(j: &Json) -> Fault {
        let strs = |k: &str| j.get(k).and_then(|a| a.as_arr()).map(|a| a.iter().filter_map(|s| s.as_str().map(String::from)).collect()).unwrap_or_default();
        Fault { stack: j.get("stack").and_then(|s| s.as_u64()).map(|s| s as usize), import_fail: strs("import_fail"), native_fail: strs("native_fail") }
    }
}

/// Handle operands are abstract: `h` selects the (h mod live)-th live handle
/// of that kind at execution time, so sub-sequences remain executable.
#[derive(Clone, Debug, PartialEq)]
pub enum Req {
    Load(String),
    Eval { thunk: u32, keep: bool },
    /// what the CLI does: evaluate; if the result is a function, call it with the TLAs
    Top { thunk: u32, tla: Vec<(String, bool, String)>, keep: bool },
    Call { thunk: u32, pos: Vec<u32>, named: Vec<(String, u32)>, keep: bool },
    Manifest { value: u32, multiline: bool },
    ToThunk { value: u32 },
    MakeArray { values: Vec<u32> },
    /// Program::make_object with fields f0, f1, … holding earlier results
    MakeObject { values: Vec<u32> },
    Gc,
    DropThunk(u32),
    DropValue(u32),
    SetMaxStack(usize),
    /// `Program::add_ext_var` in mid-history: a CODE variable, lazy, evaluated by whichever request needs it first
    AddExtVar { name: String, code: String },
}

#[derive(Clone, Debug, PartialEq)]
pub struct Op {
    pub req: Req,
    pub fault: Fault,
}

impl Op {
    pub fn plain(req: Req) -> Op {
        Op { req, fault: Fault::default() }
    }

    pub fn to_json(&self) -> Json {
        let u = |v: &u32| Json::int(*v);
        let mut f: Vec<(&str, Json)> = match &self.req {
            Req::Load(s) => vec![("op", Json::str("load")), ("src", Json::str(s))],
            Req::Eval { thunk, keep } => vec![("op", Json::str("eval")), ("thunk", u(thunk)), ("keep", Json::Bool(*keep))],
            Req::Top { thunk, tla, keep } => vec![
                ("op", Json::str("top")),
                ("thunk", u(thunk)),
                ("tla", Json::Arr(tla.iter().map(|(n, c, t)| Json::Arr(vec![Json::str(n), Json::Bool(*c), Json::str(t)])).collect())),
                ("keep", Json::Bool(*keep)),
            ],
            Req::Call { thunk, pos, named, keep } => vec![
                ("op", Json::str("call")),
                ("thunk", u(thunk)),
                ("pos", Json::Arr(pos.iter().map(u).collect())),
                ("named", Json::Arr(named.iter().map(|(n, h)| Json::Arr(vec![Json::str(n), u(h)])).collect())),
                ("keep", Json::Bool(*keep)),
            ],
            Req::Manifest { value, multiline } => vec![("op", Json::str("manifest")), ("value", u(value)), ("multiline", Json::Bool(*multiline))],
            Req::ToThunk { value } => vec![("op", Json::str("to_thunk")), ("value", u(value))],
            Req::MakeArray { values } => vec![("op", Json::str("make_array")), ("values", Json::Arr(values.iter().map(u).collect()))],
            Req::MakeObject { values } => vec![("op", Json::str("make_object")), ("values", Json::Arr(values.iter().map(u).collect()))],
            Req::Gc => vec![("op", Json::str("gc"))],
            Req::DropThunk(h) => vec![("op", Json::str("drop_thunk")), ("handle", u(h))],
            Req::DropValue(h) => vec![("op", Json::str("drop_value")), ("handle", u(h))],
            Req::SetMaxStack(n) => vec![("op", Json::str("set_max_stack")), ("n", Json::int(*n as i64))],
            Req::AddExtVar { name, code } => vec![("op", Json::str("add_ext_var")), ("name", Json::str(name)), ("code", Json::str(code))],
        };
        if !self.fault.is_none() {
            f.push(("fault", self.fault.to_json()));
        }
        Json::obj(f)
    }

    pub fn from_json(j: &Json) -> Option<Op> {
        let u = |k: &str| j.get(k).and_then(|v| v.as_u64()).map(|v| v as u32);
        let b = |k: &str| j.get(k).and_then(|v| v.as_bool()).unwrap_or(false);
        let us = |k: &str| -> Option<Vec<u32>> { Some(j.get(k)?.as_arr()?.iter().filter_map(|v| v.as_u64().map(|v| v as u32)).collect()) };
        let req = match j.get("op")?.as_str()? {
            "load" => Req::Load(j.get("src")?.as_str()?.to_string()),
            "eval" => Req::Eval { thunk: u("thunk")?, keep: b("keep") },
            "top" => Req::Top {
                thunk: u("thunk")?,
                tla: j.get("tla")?.as_arr()?.iter().filter_map(|t| { let a = t.as_arr()?; Some((a.first()?.as_str()?.to_string(), a.get(1)?.as_bool()?, a.get(2)?.as_str()?.to_string())) }).collect(),
                keep: b("keep"),
            },
            "call" => Req::Call {
                thunk: u("thunk")?,
                pos: us("pos")?,
                named: j.get("named")?.as_arr()?.iter().filter_map(|t| { let a = t.as_arr()?; Some((a.first()?.as_str()?.to_string(), a.get(1)?.as_u64()? as u32)) }).collect(),
                keep: b("keep"),
            },
            "manifest" => Req::Manifest { value: u("value")?, multiline: b("multiline") },
            "to_thunk" => Req::ToThunk { value: u("value")? },
            "make_array" => Req::MakeArray { values: us("values")? },
            "make_object" => Req::MakeObject { values: us("values")? },
            "gc" => Req::Gc,
            "drop_thunk" => Req::DropThunk(u("handle")?),
            "drop_value" => Req::DropValue(u("handle")?),
            "set_max_stack" => Req::SetMaxStack(j.get("n")?.as_u64()? as usize),
            "add_ext_var" => Req::AddExtVar { name: j.get("name")?.as_str()?.to_string(), code: j.get("code")?.as_str()?.to_string() },
            _ => return None,
        };
        let fault = j.get("fault").map(Fault::from_json).unwrap_or_default();
        Some(Op { req, fault })
    }
}

pub fn ops_to_json(ops: &[Op]) -> Json {
    Json::Arr(ops.iter().map(Op::to_json).collect())
}

pub fn ops_from_json(j: &Json) -> Option<Vec<Op>> {
    j.as_arr()?.iter().map(Op::from_json).collect()
}


/// Concrete-handle versions of the requests (shared by `Exec` and by the
/// fresh-state reference of `sim-hist`).
pub fn do_top<'p>(ctx: &mut Ctx<'p>, t: &Thunk<'p>, tla: &[(String, bool, String)]) -> (Out, Option<Value<'p>>) {
    let v = match ctx.eval(t) {
        Ok(v) => v,
        Err(o) => return (o, None),
    };
    let v = if v.is_function() {
        let ft = ctx.program.value_to_thunk(&v);
        let mut named = Vec::new();
        for (name, is_code, text) in tla {
            let th = if *is_code {
                let vname = format!("<tla:{name}>");
                match ctx.cb.load_data(&mut ctx.program, &vname, text.as_bytes()) {
                    Ok(t) => t,
                    Err(o) => return (o, None),
                }
            } else {
                ctx.program.value_to_thunk(&Value::string(text))
            };
            named.push((name.clone(), th));
        }
        match ctx.call(&ft, &[], &named) {
            Ok(v) => v,
            Err(o) => return (o, None),
        }
    } else if !tla.is_empty() {
        return (Out::Ok("<tla given but root is not a function>".into()), None);
    } else {
        v
    };
    let out = match ctx.manifest_and_walk(&v) {
        Out::Ok(_) => ctx.manifest(&v, true),
        other => other,
    };
    (out, Some(v))
}

pub fn do_make_object<'p>(ctx: &mut Ctx<'p>, vs: &[Value<'p>]) -> (Out, Value<'p>) {
    let fields: Vec<_> = vs.iter().enumerate().map(|(i, v)| (ctx.program.intern_str(&format!("f{i}")), v.clone())).collect();
    let v = ctx.program.make_object(&fields);
    let out = ctx.manifest_and_walk(&v);
    (out, v)
}

pub fn do_make_array<'p>(ctx: &mut Ctx<'p>, vs: &[Value<'p>]) -> (Out, Value<'p>) {
    let v = ctx.program.make_array(vs);
    let out = ctx.manifest(&v, false);
    (out, v)
}

/// How the abstract operands of an executed op were resolved: indices of the
/// ops that produced the handles it used.
#[derive(Clone, Debug, Default)]
pub struct Resolved {
    pub thunk: Option<usize>,
    pub pos: Vec<usize>,
    pub named: Vec<(String, usize)>,
    pub values: Vec<usize>,
    /// the op did nothing (no live handle to select)
    pub noop: bool,
}

pub struct Exec<'p> {
    pub ctx: Ctx<'p>,
    /// live thunk handles: (producer op index, handle)
    pub thunks: Vec<(usize, Thunk<'p>)>,
    pub values: Vec<(usize, Value<'p>)>,
    pub max_stack: usize,
    pub explicit_gcs: u64,
}

impl<'p> Exec<'p> {
    pub fn new(ctx: Ctx<'p>) -> Self {
        Exec { ctx, thunks: Vec::new(), values: Vec::new(), max_stack: 500, explicit_gcs: 0 }
    }

    /// `LAST_THUNK` selects the most recently produced live thunk (used right after a late load)
    fn sel_thunk(&self, h: u32) -> Option<usize> {
        if self.thunks.is_empty() {
            None
        } else if h == LAST_THUNK {
            Some(self.thunks.len() - 1)
        } else {
            Some(h as usize % self.thunks.len())
        }
    }
    fn sel_value(&self, h: u32) -> Option<usize> {
        if self.values.is_empty() { None } else { Some(h as usize % self.values.len()) }
    }

    pub fn drop_all_handles(&mut self) {
        self.thunks.clear();
        self.values.clear();
        self.ctx.cb.import_cache.clear();
    }

    /// Executes one op (index `i` in its history). Returns the comparable
    /// outcome and how its operands were resolved.
    pub fn step(&mut self, i: usize, op: &Op) -> (Out, Resolved) {
        let mut res = Resolved::default();
        let f = &op.fault;
        if let Some(k) = f.stack {
            self.ctx.program.set_max_stack(k);
        }
        self.ctx.cb.fail_imports = f.import_fail.iter().cloned().collect();
        self.ctx.cb.fail_natives = f.native_fail.iter().cloned().collect();
        let out = self.step_inner(i, &op.req, &mut res);
        if f.stack.is_some() {
            self.ctx.program.set_max_stack(self.max_stack);
        }
        self.ctx.cb.fail_imports.clear();
        self.ctx.cb.fail_natives.clear();
        (out, res)
    }

    fn step_inner(&mut self, i: usize, req: &Req, res: &mut Resolved) -> Out {
        let none = || Out::Ok(String::new());
        match req {
            Req::Load(name) => match self.ctx.load(name) {
                Ok(t) => {
                    self.thunks.push((i, t));
                    none()
                }
                Err(o) => o,
            },
            Req::Eval { thunk, keep } => {
                let Some(k) = self.sel_thunk(*thunk) else {
                    res.noop = true;
                    return none();
                };
                res.thunk = Some(self.thunks[k].0);
                let t = self.thunks[k].1.clone();
                let (out, v) = self.ctx.eval_out(&t);
                if let (true, Some(v)) = (*keep, v) {
                    self.values.push((i, v));
                }
                out
            }
            Req::Top { thunk, tla, keep } => {
                let Some(k) = self.sel_thunk(*thunk) else {
                    res.noop = true;
                    return none();
                };
                res.thunk = Some(self.thunks[k].0);
                let t = self.thunks[k].1.clone();
                let (out, v) = do_top(&mut self.ctx, &t, tla);
                if let (true, Some(v)) = (*keep, v) {
                    self.values.push((i, v));
                }
                out
            }
            Req::Call { thunk, pos, named, keep } => {
                let Some(k) = self.sel_thunk(*thunk) else {
                    res.noop = true;
                    return none();
                };
                res.thunk = Some(self.thunks[k].0);
                let t = self.thunks[k].1.clone();
                let mut p = Vec::new();
                for h in pos {
                    let kk = self.sel_thunk(*h).unwrap();
                    res.pos.push(self.thunks[kk].0);
                    p.push(self.thunks[kk].1.clone());
                }
                let mut n = Vec::new();
                for (name, h) in named {
                    let kk = self.sel_thunk(*h).unwrap();
                    res.named.push((name.clone(), self.thunks[kk].0));
                    n.push((name.clone(), self.thunks[kk].1.clone()));
                }
                let (out, v) = self.ctx.call_out(&t, &p, &n);
                if let (true, Some(v)) = (*keep, v) {
                    self.values.push((i, v));
                }
                out
            }
            Req::Manifest { value, multiline } => {
                let Some(k) = self.sel_value(*value) else {
                    res.noop = true;
                    return none();
                };
                res.values.push(self.values[k].0);
                let v = self.values[k].1.clone();
                self.ctx.manifest(&v, *multiline)
            }
            Req::ToThunk { value } => {
                let Some(k) = self.sel_value(*value) else {
                    res.noop = true;
                    return none();
                };
                res.values.push(self.values[k].0);
                let v = self.values[k].1.clone();
                let t = self.ctx.program.value_to_thunk(&v);
                self.thunks.push((i, t));
                none()
            }
            Req::MakeArray { values } => {
                if self.values.is_empty() {
                    res.noop = true;
                    return none();
                }
                let mut vs = Vec::new();
                for h in values {
                    let k = self.sel_value(*h).unwrap();
                    res.values.push(self.values[k].0);
                    vs.push(self.values[k].1.clone());
                }
                let (out, v) = do_make_array(&mut self.ctx, &vs);
                self.values.push((i, v));
                out
            }
            Req::MakeObject { values } => {
                if self.values.is_empty() {
                    res.noop = true;
                    return none();
                }
                let mut vs = Vec::new();
                for h in values {
                    let k = self.sel_value(*h).unwrap();
                    res.values.push(self.values[k].0);
                    vs.push(self.values[k].1.clone());
                }
                let (out, v) = do_make_object(&mut self.ctx, &vs);
                self.values.push((i, v));
                out
            }
            Req::Gc => {
                self.explicit_gcs += 1;
                match self.ctx.gc() {
                    Ok((before, after)) => {
                        if after > before {
                            Out::Panic(format!("G4: object count grew across gc(): {before} -> {after}"))
                        } else {
                            none()
                        }
                    }
                    Err(o) => o,
                }
            }
            Req::DropThunk(h) => {
                match self.sel_thunk(*h) {
                    Some(k) => {
                        res.thunk = Some(self.thunks[k].0);
                        self.thunks.remove(k);
                    }
                    None => res.noop = true,
                }
                none()
            }
            Req::DropValue(h) => {
                match self.sel_value(*h) {
                    Some(k) => {
                        res.values.push(self.values[k].0);
                        self.values.remove(k);
                    }
                    None => res.noop = true,
                }
                none()
            }
            Req::SetMaxStack(n) => {
                self.max_stack = *n;
                self.ctx.program.set_max_stack(*n);
                none()
            }
            Req::AddExtVar { name, code } => {
                if !self.ctx.add_ext(name, true, code) {
                    res.noop = true;
                }
                none()
            }
        }
    }
}

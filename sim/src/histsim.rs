//! C11 — `sim-hist`: request histories on one long-lived program state
//! compared, request by request, with a fresh state (the reference model).
//! The "crash" is an evaluation aborted part-way: explicit error, failed
//! assertion, frame limit hit at an arbitrary depth, failing callback.

use std::collections::{BTreeMap, BTreeSet, HashMap};
use std::sync::Arc;

use rsjsonnet_lang::arena::Arena;
use rsjsonnet_lang::program::{Thunk, Value};

use crate::json::Json;
use crate::pgen::{Gen, GenCfg, Ty};
use crate::prog::{AuditMode, Ctx, Out, Sched, SchedMode, World};
use crate::reqs::{do_make_array, do_make_object, do_top, ops_from_json, ops_to_json, Exec, Fault, Op, Req, Resolved};
use crate::rng::Rng;
use crate::util::{bump, Violation};

pub const INF_STACK: usize = 20_000;

#[derive(Clone)]
pub struct History {
    pub world: World,
    pub ops: Vec<Op>,
    /// collections inside requests of the shared state (H1), n/1000 per step
    pub inner_gc: Option<u64>,
}

pub fn history_to_json(h: &History) -> Json {
    let mut f = h.world.to_json(None);
    f.push(("mode".into(), Json::str("lang")));
    f.push(("history".into(), ops_to_json(&h.ops)));
    f.push(("inner_gc".into(), h.inner_gc.map(|n| Json::obj(vec![("kind", Json::str("bernoulli")), ("per_mille", Json::int(n as i64))])).unwrap_or(Json::Null)));
    Json::Obj(f)
}

pub fn history_from_json(j: &Json) -> Option<History> {
    Some(History {
        world: World::from_json(j)?,
        ops: ops_from_json(j.get("history")?)?,
        inner_gc: j.get("inner_gc").and_then(|g| g.get("per_mille")).and_then(|n| n.as_u64()),
    })
}

// ---------------------------------------------------------------------------
// generation: a library whose partial evaluation is shared between requests

fn lib_source(g: &mut Rng, session: bool) -> (String, Vec<String>) {
    let mut fields: Vec<(String, String)> = Vec::new();
    let depth = *g.pick(&[8u64, 20, 45, 90, 160, 300]);
    let neg = g.chance(1, 2);
    let mut cfg = GenCfg::draw(g);
    cfg.size = 25;
    cfg.big_heap = false;
    cfg.deep = None;
    cfg.natives = false;
    cfg.errors = g.chance(1, 4);
    if session {
        // std.trace output lands on the captured stderr, which session mode compares
        cfg.effects = false;
    }
    let sub = |g: &mut Rng, ty: &Ty| Gen::new(g, cfg.clone()).program(ty).print();
    let menu: Vec<(&str, String)> = vec![
        ("shallow", "1".into()),
        ("deep", format!("local f(n) = if n <= 0 then 0 else 1 + f(n - 1); f({depth})")),
        ("deeparr", format!("local g(n) = if n <= 0 then [] else [g(n - 1)]; g({})", depth / 2)),
        ("boom", "error \"boom\"".into()),
        ("guarded", format!("{{ assert self.x > 0 : \"neg\", x: {}, y: 2 }}", if neg { -1 } else { 1 })),
        ("checked", "{ assert lib.shallow == 1 : \"shallow changed\", v: lib.arr }".into()),
        ("deepassert", format!("{{ assert lib.deep == {depth} : \"deep\", w: 3 }}")),
        ("outer", "{ assert lib.guarded.y == 2 : \"outer bad\", w: 2, inner: lib.guarded }".into()),
        ("outer2", format!("{{ assert lib.mid.m == 1 : \"outer2 bad\", w: 5 }}")),
        ("mid", format!("{{ assert lib.guarded.x {} 0 : \"mid bad\", m: 1 }}", if neg { "<" } else { ">" })),
        ("deepouter", format!("{{ assert lib.deepassert.w == 3 : \"deepouter\", z: lib.deep }}")),
        ("arr", format!("[{}, {}, lib.shallow]", sub(g, &Ty::Num), sub(g, &Ty::Str))),
        ("lazy", sub(g, &Ty::Any)),
        ("lazyobj", sub(g, &Ty::Obj)),
        ("fn", "function(a, b=2) a + b + lib.shallow".into()),
        ("nested", "{ inner: { leaf: lib.deep + 1, other: lib.shallow } }".into()),
        ("halfbad", "{ good: lib.shallow, bad: lib.boom }".into()),
        ("selfref", "lib.arr[2]".into()),
        ("strs", "std.map(function(x) \"s\" + x, std.range(0, 5))".into()),
        ("sorted", "std.sort([3, 1, 2, lib.shallow], function(x) -x)".into()),
        ("fold", "std.foldl(function(a, x) a + x, std.range(0, 40), lib.shallow)".into()),
        ("comp", "{ [\"k\" + i]: i * lib.shallow for i in std.range(0, 4) }".into()),
        ("nat", "std.native(\"id\")(lib.shallow + 4)".into()),
        ("sub", "import \"lib/sub.libsonnet\"".into()),
        ("substr", "importstr \"lib/sub.libsonnet\"".into()),
        ("loop", "lib.loop2".into()),
        ("loop2", "lib.loop".into()),
        ("viasuper", "{ a: 1 } + { a+: lib.shallow, b: super.a }".into()),
        ("manif", "std.manifestJson(lib.nested)".into()),
        ("tostr", "\"v=\" + lib.arr".into()),
        ("cmp", "lib.arr == [lib.arr[0], lib.arr[1], 1]".into()),
        ("hidden", "lib.secret + 1".into()),
        // objects of mixed field visibility, combined by later requests through shared handles (what `+` derives from
        // its operands - field order, visibility, asserts - must not depend on what earlier requests asked of them)
        ("visa", "{ a: 1, h:: 2, v::: 3, n: { x:: 1, y: lib.shallow } }".into()),
        ("visb", "{ a::: 10, h::: 20, v:: 30, extra: [lib.shallow] }".into()),
        ("visc", "{ a+: 1, h+:: 5, v+::: 6, n+: { z::: 2 } }".into()),
        ("visd", "{ a:: 0, zz::: 0, extra:: 0 } + { [k]: k + \"!\" for k in [\"a\", \"zz\", \"extra\"] }".into()),
        // asserts that live in an INHERITED layer only: the outermost layer of these shared objects has none
        ("derived", "lib.guarded + { x: -1 }".into()),
        ("derived3", "lib.guarded + { y: 3 } + { z: lib.deep, x: -lib.shallow }".into()),
        ("derivedok", "lib.guarded + { x: 7 } + { w: lib.deep }".into()),
        // empty containers, rendered differently by every manifestation format (multi-line, single-line, manifestJsonEx)
        ("empties", "{ a: [], o: {}, n: [[], {}, [1, []]], s: \"\" }".into()),
        ("tf", "std.thisFile".into()),
        ("longn", "{ configuration_b: 1, configuration_a: 2, upstream_hostname: lib.shallow, upstream_host: 4 }".into()),
        // fields that depend on `self`: objects DERIVED from a shared object by later requests (a key removed, patched,
        // overridden, hidden) must compute them against the new object, whatever was forced on the original before
        ("selfdep", "{ a: 1, b: std.objectHas(self, \"a\"), n: std.length(self), c: self.a + lib.shallow, d: std.objectFields(self) }".into()),
        // `+:` fields whose right-hand side is deep, fails, or imports: an evaluation cut off inside them leaves the
        // field's thunk in progress; a later request must still see inherited + own
        ("plusdeep", "{ xs: [lib.shallow], k: 1 } + { xs+: [lib.deep] }".into()),
        ("plussub", "{ xs: [0], t: \"t\" } + { xs+: (import \"lib/sub.libsonnet\").t, t+: std.native(\"id\")(\"u\") }".into()),
        ("plusobj", "{ o: { p: 1 } } + { o+: { q: lib.deep, r: lib.shallow } } + { o+: { p+: 1 } }".into()),
        // a native function that fails for some arguments and succeeds for others
        ("picky", "std.native(\"picky\")(lib.guarded.x)".into()),
        ("picky2", "[std.native(\"picky\")(lib.shallow), std.native(\"picky\")(lib.shallow + 1)]".into()),
        // a nested evaluation whose failure the embedder swallows, while this field (and its object) is in flight
        ("trynat", "std.native(\"tryOther\")(lib.shallow + 6)".into()),
        ("tryobj", "{ assert std.native(\"tryOther\")(lib.shallow == 1) : \"tryobj\", q: lib.nested.inner.other }".into()),
    ];
    // always present: shallow, arr, deep, secret; others by swarm
    let mut names = Vec::new();
    for (n, src) in &menu {
        if matches!(*n, "shallow" | "arr" | "deep" | "boom" | "nested" | "guarded" | "loop" | "loop2" | "selfdep" | "empties" | "tf") || g.chance(2, 3) {
            fields.push((n.to_string(), src.clone()));
            names.push(n.to_string());
        }
    }
    let mut s = String::from("{\n  local lib = self,\n  secret:: 41,\n");
    for (n, src) in &fields {
        let vis = if n == "fn" || g.chance(1, 6) { "::" } else { ":" };
        s.push_str(&format!("  {n}{vis} {src},\n"));
    }
    s.push_str("}\n");
    (s, names)
}

fn client_source(g: &mut Rng, names: &[String], via: &str) -> String {
    let l = match via {
        "ext" => "std.extVar(\"L\")",
        _ => "(import \"lib.libsonnet\")",
    };
    let f = |g: &mut Rng| g.pick(names).clone();
    // object-typed library fields (those present in this library)
    let objs: Vec<String> = names.iter().filter(|n| matches!(n.as_str(), "visa" | "visb" | "visc" | "visd" | "guarded" | "checked" | "nested" | "comp" | "viasuper" | "halfbad" | "outer" | "selfdep" | "plusdeep" | "plussub" | "plusobj" | "derived" | "derived3" | "derivedok")).cloned().collect();
    let vis: Vec<String> = objs.iter().filter(|n| n.starts_with("vis")).cloned().collect();
    let fo = |g: &mut Rng| if !vis.is_empty() && g.chance(3, 5) { g.pick(&vis).clone() } else if objs.is_empty() { "nested".to_string() } else { g.pick(&objs).clone() };
    match g.below(62) {
        0 => format!("{l}.{}", f(g)),
        1 => format!("local l = {l}; [l.{}, l.{}]", f(g), f(g)),
        2 => format!("local l = {l}; {{ a: l.{}, b: l.{} }}", f(g), f(g)),
        3 => format!("local l = {l}; [l.{}, error \"client gave up\"]", f(g)),
        4 => format!("local l = {l}; std.length(std.objectFields(l)) + std.length(std.toString(l.{}))", f(g)),
        5 => format!("({l} + {{ shallow: 2 }}).{}", f(g)),
        6 => format!("local l = {l}; if std.objectHas(l, \"gho\" + \"st\") then l.ghost else l.{}", f(g)),
        7 => format!("local l = {l}; assert std.isObject(l.nested) : \"not obj\"; l.nested.inner.other + l.{}", "shallow"),
        8 => format!("std.manifestJsonEx({l}.{}, \"  \")", f(g)),
        9 => format!("local l = {l}; std.native(\"id\")(l.{})", f(g)),
        10 => format!("local l = {l}; l.{} == l.{}", f(g), f(g)),
        11 => format!("function(cfg={l}, k=\"{}\") cfg[k]", f(g)),
        12 => format!("local l = {l}; [std.type(l.{}), l.guarded.y, l.halfbad.good]", f(g)),
        // values whose top level is cheap and whose depth is not: a later request must still get them deep
        13 => format!("local l = {l}; [[l.{}, [l.{}]], {{ p: {{ q: l.{} }} }}]", f(g), f(g), f(g)),
        14 => "function(x) std.length(x) + std.length(std.toString(std.type(x[0])))".to_string(),
        15 => "function(x, k=\"shallow\") if std.isObject(x) then std.objectHas(x, k) else std.type(x)".to_string(),
        16 => format!("local l = {l}; {{ a: [l.{}], b: {{ c: [l.{}] }} }}", f(g), f(g)),
        17 => "[1, import \"broken.jsonnet\"]".to_string(),
        // dynamic lookup of a name that only another source (ghost.jsonnet) ever interns, on objects with asserts
        18 => format!("local l = {l}; l.guarded[\"gho\" + \"st\"]"),
        19 => format!("local l = {l}; [\"gho\" + \"st\" in l.guarded, std.objectHas(l.checked, \"gho\" + \"st\"), l.outer[\"gho\" + \"st\"]]"),
        20 => "function(o, k=\"gho\" + \"st\") o[k]".to_string(),
        // objects merged through handles that earlier requests may already have evaluated (asserts re-run on the merge)
        21 => "function(base, patch={ x: -7 }) base + patch".to_string(),
        22 => "{ x: -5, shallow: 7, y: 3 }".to_string(),
        23 => format!("{l}.guarded"),
        24 => format!("local l = {l}; function(patch) [l.guarded + patch, l.checked + patch]"),
        26 => format!("local l = {l}; l.{} + l.{}", fo(g), fo(g)),
        27 => format!("local l = {l}; [std.objectFields(l.{}), std.objectFieldsAll(l.{}), std.length(l.{})]", fo(g), fo(g), fo(g)),
        28 => format!("local l = {l}; local s = l.{} + l.{}; [std.objectFieldsAll(s), std.objectFields(s + l.{}), s]", fo(g), fo(g), fo(g)),
        29 => format!("local l = {l}; [l.{a} + l.{b} == l.{b} + l.{a}, std.objectHasAll(l.{a} + l.{b}, \"h\"), std.objectHas(l.{b} + l.{a}, \"v\")]", a = fo(g), b = fo(g)),
        30 => format!("local l = {l}; {{ r: l.{} }} + {{ r+: l.{} }}", fo(g), fo(g)),
        // format strings built at run time whose %(key) names no source loaded so far may have interned (ghost.jsonnet,
        // often loaded later, does): the same string is formatted against arrays / objects without and with the field
        37 => "(\"<%(gho\" + \"st)s>\") % { other: 1 }".to_string(),
        38 => "std.format(\"<%(gho\" + \"st)s>\", [7]) + (\"<%(gho\" + \"st)05d|%(sha\" + \"llow)s>\") % { ghost: 3, shallow: \"s\" }".to_string(),
        39 => format!("local l = {l}; (\"<%(gho\" + \"st)s>\") % (l.guarded + {{ ghost: l.shallow }})"),
        40 => "{ ghost: \"boo\", r: (\"<%(gho\" + \"st)s>\") % self }.r".to_string(),
        // long field names sharing a long prefix, first mentioned in different orders by different sources: the order of
        // fields in an answer is alphabetical, whatever order the names entered the long-lived state in
        41 => "{ upstream_host: \"h\" }".to_string(),
        42 => "{ upstream_port: 1, upstream_host: \"h\", upstream_hostname: 2, upstream_: 0, configuration_a: 3 }".to_string(),
        43 => format!("local l = {l}; [std.objectFields({{ upstream_port: 1 }} + {{ upstream_host: 2 }}), std.objectFields(l.longn), l.longn]"),
        44 => "std.manifestJsonMinified(std.parseJson(\"{\\\"upstream_port\\\": 1, \\\"upstream_host\\\": 2, \\\"configuration_a\\\": 0}\"))".to_string(),
        // a GENERATED client over the shared values: the library's fields are bound to typed variables and the program
        // generator (about 100 builtins, comprehensions, inheritance, functions) computes with them
        45..=50 => {
            let table: &[(&str, Ty)] = &[
                ("shallow", Ty::Num), ("deep", Ty::Num), ("fold", Ty::Num), ("hidden", Ty::Num), ("nat", Ty::Num),
                ("arr", Ty::Arr(Box::new(Ty::Any))), ("deeparr", Ty::Arr(Box::new(Ty::Any))), ("strs", Ty::Arr(Box::new(Ty::Str))), ("sorted", Ty::Arr(Box::new(Ty::Num))),
                ("tostr", Ty::Str), ("manif", Ty::Str), ("substr", Ty::Str), ("cmp", Ty::Bool),
                ("nested", Ty::Obj), ("guarded", Ty::Obj), ("checked", Ty::Obj), ("comp", Ty::Obj), ("viasuper", Ty::Obj), ("visa", Ty::Obj), ("visb", Ty::Obj),
                ("visc", Ty::Obj), ("visd", Ty::Obj), ("selfdep", Ty::Obj), ("plusdeep", Ty::Obj), ("plusobj", Ty::Obj), ("longn", Ty::Obj), ("sub", Ty::Obj), ("lazyobj", Ty::Obj),
                ("lazy", Ty::Any), ("boom", Ty::Any),
            ];
            let vars: Vec<(String, Ty)> = table.iter().filter(|(n, _)| names.iter().any(|x| x == n)).map(|(n, t)| (format!("v_{n}"), t.clone())).collect();
            let binds: Vec<String> = vars.iter().map(|(v, _)| format!("{v} = l.{}", &v[2..])).collect();
            let mut cfg = GenCfg::draw(g);
            cfg.size = *g.pick(&[12, 25, 40]);
            cfg.big_heap = false;
            cfg.deep = None;
            cfg.effects = false;
            cfg.natives = false;
            let want = match g.below(5) { 0 => Ty::Num, 1 => Ty::Str, 2 => Ty::Obj, 3 => Ty::Arr(Box::new(Ty::Any)), _ => Ty::Any };
            let prog = Gen::new(g, cfg).with_vars(vars).program(&want).print();
            format!("local l = {l};\nlocal {};\n{prog}", binds.join(", "))
        }
        // external variables that some histories register only AFTER earlier requests have run
        51 => "std.extVar(\"A1\")".to_string(),
        52 => format!("local l = {l}; [std.extVar(\"z9\"), l.shallow]"),
        53 => "local e = std.extVar(\"M5\"); if std.isObject(e) then e.v else e".to_string(),
        54 => "[std.extVar(\"z9\"), std.extVar(\"A1\")]".to_string(),
        // every manifestation format over the same values, in whatever order the history asks for them
        55 => format!("local l = {l}; std.manifestJsonEx(l.{}, \"   \")", if g.chance(1, 2) { "empties".to_string() } else { f(g) }),
        56 => format!("local l = {l}; [std.manifestJsonEx(l.empties, \"\", \"\", \": \"), std.manifestJsonEx(l.{}, \"   \", \"\\n\", \": \")]", f(g)),
        57 => format!("local l = {l}; [\"\" + l.empties.n, std.toString(l.empties), std.manifestJsonMinified(l.{}), std.manifestJson(l.empties)]", f(g)),
        58 => format!("local l = {l}; {{ e: l.empties, v: l.{}, z: [[]], y: {{}} }}", f(g)),
        // what a source says about itself
        59 => format!("local l = {l}; [std.thisFile, l.tf, l.shallow]"),
        60 => "{ me: std.thisFile, parts: std.split(std.thisFile, \"/\") }".to_string(),
        33 => format!("local l = {l}; [std.objectRemoveKey(l.{a}, \"a\"), std.mergePatch(l.{b}, {{ a: null, k: null }}), l.{a}]", a = if g.chance(1, 2) { "selfdep".to_string() } else { fo(g) }, b = fo(g)),
        34 => format!("local l = {l}; [l.{a} {{ a: 10 }}, l.{b} + {{ a:: 5, xs+: [9] }}, std.objectRemoveKey(l.{a}, \"xs\")]", a = fo(g), b = fo(g)),
        35 => format!("local l = {l}; local o = l.{}; [std.length(o), std.objectFields(o), o]", fo(g)),
        36 => format!("local l = {l}; std.prune(l.{}) == l.{}", fo(g), fo(g)),
        31 => format!("local l = {l}; [std.native(\"picky\")(l.shallow), l.{}]", f(g)),
        32 => format!("local l = {l}; std.native(\"picky\")(l.guarded.x - 1) + l.{}", f(g)),
        25 => format!("local l = {l}; [std.native(\"tryOther\")(l.{}), l.{}]", f(g), f(g)),
        _ => format!("{l}"),
    }
}

pub fn gen_history(seed: u64, with_faults: bool) -> History {
    gen_history_mode(seed, with_faults, false)
}

pub fn gen_history_mode(seed: u64, with_faults: bool, session: bool) -> History {
    let mut g = Rng::stream(seed, "gen");
    let mut o = Rng::stream(seed, "ops");
    let mut files: BTreeMap<String, Vec<u8>> = BTreeMap::new();
    let (lib, mut names) = lib_source(&mut g, session);
    files.insert("lib.libsonnet".into(), lib.into_bytes());
    files.insert("lib/sub.libsonnet".into(), b"{ s: 1, t: [self.s, 2], local up = import \"../lib.libsonnet\", back:: up.shallow }".to_vec());
    names.retain(|n| n != "fn");
    let with_ext = g.chance(1, 2);
    let ext = if with_ext { vec![("L".to_string(), true, "import \"lib.libsonnet\"".to_string())] } else { vec![] };
    let nclients = 2 + g.usize_below(4);
    let mut ops = Vec::new();
    let mut srcs = vec!["lib.libsonnet".to_string()];
    for i in 0..nclients {
        let via = if with_ext && g.chance(1, 2) { "ext" } else { "import" };
        let name = format!("client{i}.jsonnet");
        files.insert(name.clone(), client_source(&mut g, &names, via).into_bytes());
        srcs.push(name);
    }
    if g.chance(1, 2) {
        // a source that interns a name an earlier dynamic lookup missed
        files.insert("ghost.jsonnet".into(), b"{ ghost: 1 }.ghost".to_vec());
        srcs.push("ghost.jsonnet".into());
    }
    {
        // a source that never loads (also imported by some clients): static, syntax or lexical error
        let text: &[u8] = match g.below(3) {
            0 => b"local x = 1; y",
            1 => b"{ a: 1, b: }",
            _ => b"local s = \"unterminated; s",
        };
        files.insert("broken.jsonnet".into(), text.to_vec());
    }
    if g.chance(1, 4) {
        // loads that fail: static, syntax and lexical errors (their spans are part of the compared outcome,
        // and later sources get span contexts after them)
        let text: &[u8] = match g.below(4) {
            0 => b"local x = 1; y",
            1 => b"{ a: 1, b: }",
            2 => b"local s = \"unterminated; s",
            _ => b"local f(a, a) = a; f(1, 2) + self.x",
        };
        files.insert("broken.jsonnet".into(), text.to_vec());
        srcs.push("broken.jsonnet".into());
        if g.chance(1, 2) {
            // a source whose run-time error span lies in a context registered after the failed load
            files.insert("late.jsonnet".into(), b"local l = import \"lib.libsonnet\"; [l.shallow, [1, 2][l.shallow + 1]]".to_vec());
            srcs.push("late.jsonnet".into());
        }
    }
    if g.chance(1, 3) {
        // sources with byte-identical TEXT in different places: what is derived from a text (syntax tree, spans,
        // relative imports) belongs to the source, not to the text
        let failing = b"local x = [1, 2, (import \"lib.libsonnet\").shallow]; [x[0], x[7]]".to_vec();
        files.insert("dup_a.jsonnet".into(), failing.clone());
        files.insert("dup_b.jsonnet".into(), failing);
        let importing = b"(import \"sub.libsonnet\").s".to_vec();
        files.insert("lib/dupi.jsonnet".into(), importing.clone());
        files.insert("dupi.jsonnet".into(), importing);
        for s in ["dup_a.jsonnet", "dup_b.jsonnet", "lib/dupi.jsonnet", "dupi.jsonnet"] {
            if g.chance(2, 3) {
                srcs.push(s.to_string());
            }
        }
        if session {
            files.insert("p/same.jsonnet".into(), b"{ u: import \"util.libsonnet\", w: [importstr \"util.libsonnet\"] }".to_vec());
            files.insert("q/same.jsonnet".into(), b"{ u: import \"util.libsonnet\", w: [importstr \"util.libsonnet\"] }".to_vec());
            files.insert("p/util.libsonnet".into(), b"\"P\"".to_vec());
            files.insert("q/util.libsonnet".into(), b"\"Q\"".to_vec());
            srcs.push("p/same.jsonnet".to_string());
            srcs.push("q/same.jsonnet".to_string());
        }
    }
    if session {
        // the same relative import string resolving differently per importing directory / search path
        files.insert("a/main.jsonnet".into(), b"{ who: \"a\", u: import \"util.libsonnet\", t: importstr \"util.libsonnet\" }".to_vec());
        files.insert("a/util.libsonnet".into(), b"\"A\"".to_vec());
        files.insert("b/main.jsonnet".into(), b"{ who: \"b\", u: import \"util.libsonnet\", s: importstr \"util.libsonnet\" }".to_vec());
        files.insert("b/util.libsonnet".into(), b"\"B\"".to_vec());
        files.insert("c/main.jsonnet".into(), b"{ who: \"c\", u: import \"util.libsonnet\", x: import \"extra.libsonnet\" }".to_vec());
        files.insert("j/util.libsonnet".into(), b"\"J\"".to_vec());
        files.insert("d/main.jsonnet".into(), b"{ who: \"d\", x: import \"extra.libsonnet\", b: importbin \"extra.libsonnet\" }".to_vec());
        files.insert("d/extra.libsonnet".into(), b"\"D\\u00e9\"".to_vec());
        // data imports of one file that is not valid UTF-8, as text and as bytes, by different requests in either order
        files.insert("e/blob.bin".into(), vec![1, 0, 0xff, 0xfe, b'a', 0xc3, 0x28, b'\n']);
        files.insert("e/main.jsonnet".into(), b"{ who: \"e\", s: importstr \"blob.bin\", n: std.length(importstr \"blob.bin\") }".to_vec());
        files.insert("e/bin.jsonnet".into(), b"{ who: \"e-bin\", b: importbin \"blob.bin\" }".to_vec());
        files.insert("e/both.jsonnet".into(), b"{ who: \"e-both\", b: importbin \"blob.bin\", s: importstr \"blob.bin\", t: importstr \"../d/extra.libsonnet\" }".to_vec());
        for s in ["e/main.jsonnet", "e/bin.jsonnet", "e/both.jsonnet"] {
            if g.chance(1, 2) {
                srcs.push(s.to_string());
            }
        }
        // a real file that never loads, next to files a later VIRTUAL source must not pick up by a relative import
        files.insert("a/bad.jsonnet".into(), b"{ who: \"a-bad\", u: import \"util.libsonnet\", oops: }".to_vec());
        if g.chance(1, 2) {
            srcs.push("a/bad.jsonnet".to_string());
        }
        for s in ["a/main.jsonnet", "b/main.jsonnet", "c/main.jsonnet", "d/main.jsonnet"] {
            if g.chance(2, 3) {
                srcs.push(s.to_string());
            }
        }
    }
    // a directed family: two objects evaluated by earlier requests are merged (or called with) through their
    // handles by a later one - the merged object must behave as on a fresh state (asserts re-run on the new self)
    let merge_family = g.chance(1, 4);
    if merge_family {
        let base = match g.below(3) {
            0 => "{ assert self.a == 1 : \"a must stay 1\", a: 1, b: [self.a] }".to_string(),
            1 => "(import \"lib.libsonnet\").guarded".to_string(),
            _ => "{ local me = self, assert std.length(me.items) < 3 : \"too many items\", items: [1, 2] }".to_string(),
        };
        let patch = match g.below(3) {
            0 => "{ a: 2 }",
            1 => "{ x: -5, a: 3 }",
            _ => "{ items+: [3, 4], a: 1 }",
        };
        files.insert("m_base.jsonnet".into(), base.into_bytes());
        files.insert("m_patch.jsonnet".into(), patch.as_bytes().to_vec());
        files.insert("m_fn.jsonnet".into(), b"function(base, patch) base + patch".to_vec());
        // loaded first: thunk handles 0, 1, 2 (these histories contain no drops)
        ops.push(Op::plain(Req::Load("m_base.jsonnet".into())));
        ops.push(Op::plain(Req::Load("m_patch.jsonnet".into())));
        ops.push(Op::plain(Req::Load("m_fn.jsonnet".into())));
    }
    // a directed family on NAMES: a source that looks a name up dynamically (index, membership, %(name) formatting) while no
    // loaded source has mentioned the name, then a source that mentions it and does the same, then the first one again
    let intern_family = g.chance(1, 5);
    if intern_family {
        let a = match g.below(5) {
            0 => "(\"<%(zo\" + \"rk)s>\") % { other: 1 }",
            1 => "std.format(\"<%(zo\" + \"rk)05d>\", [7])",
            2 => "local o = { assert self.n > 0 : \"n\", n: 1 }; [std.objectHas(o, \"zo\" + \"rk\"), \"zo\" + \"rk\" in o]",
            3 => "local o = (import \"lib.libsonnet\").guarded; o[\"zo\" + \"rk\"]",
            _ => "std.objectFields(std.parseJson(\"{\\\"zo\" + \"rk\\\": 1, \\\"a\\\": 2}\"))",
        };
        let b = match g.below(4) {
            0 => "(\"<%(zo\" + \"rk)s>\") % { zork: \"hi\" }",
            1 => "std.format(\"<%(zo\" + \"rk)05d>\", { zork: 42 })",
            2 => "local o = { zork: 2, assert self.zork > 0 }; [o[\"zo\" + \"rk\"], std.objectHas(o, \"zo\" + \"rk\")]",
            _ => "{ zork: 1 } + std.parseJson(\"{\\\"zo\" + \"rk\\\": 5}\")",
        };
        files.insert("i_a.jsonnet".into(), a.as_bytes().to_vec());
        files.insert("i_b.jsonnet".into(), b.as_bytes().to_vec());
    }
    // a second directed family: one function called several times with different CODE arguments, all loaded under the
    // same virtual name <tla:k>; most of them fail inside that code, so each diagnostic quotes its own text
    let tla_family = g.chance(1, 4);
    let tla_fn_handle = ops.len() as u32;
    if tla_family {
        files.insert("t_fn.jsonnet".into(), b"function(k, pre=std.length(std.range(0, 3))) [pre, k]".to_vec());
        ops.push(Op::plain(Req::Load("t_fn.jsonnet".into())));
    }
    // loads first for a random subset, others interleaved later
    o.shuffle(&mut srcs);
    let upfront = 1 + o.usize_below(srcs.len());
    for s in srcs.iter().take(upfront) {
        ops.push(Op::plain(Req::Load(s.clone())));
    }
    let mut pending: Vec<String> = srcs.iter().skip(upfront).cloned().collect();
    let n = 2 + o.usize_below(10);
    for _ in 0..n {
        let h = o.below(16) as u32;
        if !pending.is_empty() && o.chance(1, 5) {
            // a source that enters the long-lived state late (names it interns, contexts it registers, come after
            // earlier requests have run), usually evaluated right away
            ops.push(Op::plain(Req::Load(pending.pop().unwrap())));
            if o.chance(2, 3) {
                ops.push(Op::plain(Req::Eval { thunk: crate::reqs::LAST_THUNK, keep: o.chance(1, 2) }));
            }
            continue;
        }
        let req = match o.below(24) {
            0..=9 => Req::Eval { thunk: h, keep: o.chance(1, 2) },
            10 | 11 => {
                // top-level arguments: none, a string, or CODE - several different texts are loaded under the same
                // virtual name <tla:k> during one history, some of them failing with a diagnostic that quotes the source
                let tla = match o.below(9) {
                    7 => vec![("k".to_string(), true, "import \"util.libsonnet\"".to_string())],
                    0 | 1 => vec![],
                    2 | 3 => vec![("k".to_string(), false, "shallow".to_string())],
                    4 => vec![("k".to_string(), true, "\"sha\" + \"llow\"".to_string())],
                    5 => vec![("k".to_string(), true, "local xs = [\"arr\", \"deep\"];\nxs[7]".to_string())],
                    6 => vec![("k".to_string(), true, "\n\n  error \"tla says no\"".to_string())],
                    _ => vec![("k".to_string(), true, "local pick(n) = if n > 0 then \"nested\" else 1 + \"x\" - 2; pick(0)".to_string())],
                };
                Req::Top { thunk: h, tla, keep: o.chance(1, 2) }
            }
            12 => Req::Call { thunk: h, pos: vec![], named: vec![("cfg".into(), o.below(16) as u32)], keep: o.chance(1, 2) },
            13 => {
                if o.chance(1, 2) {
                    Req::Call { thunk: h, pos: vec![o.below(16) as u32], named: vec![], keep: false }
                } else {
                    Req::Call { thunk: h, pos: vec![o.below(16) as u32, o.below(16) as u32], named: vec![], keep: o.chance(1, 2) }
                }
            }
            14 | 15 => Req::Manifest { value: h, multiline: o.chance(1, 2) },
            16 => Req::ToThunk { value: h },
            17 => {
                if o.chance(1, 2) {
                    Req::MakeArray { values: vec![o.below(16) as u32] }
                } else {
                    Req::MakeObject { values: vec![o.below(16) as u32, o.below(16) as u32] }
                }
            }
            18 | 19 => Req::Gc,
            20 => Req::DropThunk(h),
            21 => Req::DropValue(h),
            22 => match pending.pop() {
                Some(s) => Req::Load(s),
                None => Req::Eval { thunk: h, keep: false },
            },
            _ => {
                if with_faults || o.chance(1, 3) {
                    Req::SetMaxStack(*o.pick(&[5usize, 15, 40, 100, 500, 500]))
                } else {
                    Req::Eval { thunk: h, keep: false }
                }
            }
        };
        ops.push(Op::plain(req));
    }
    if o.chance(1, 4) {
        // a third directed family: results kept from earlier requests travel on as handles - re-wrapped into thunks,
        // packed into arrays / objects, passed as arguments, manifested again after collections
        let tail = vec![
            Req::Eval { thunk: o.below(16) as u32, keep: true },
            Req::Eval { thunk: o.below(16) as u32, keep: true },
            Req::Gc,
            Req::MakeArray { values: vec![0, 1, 0] },
            Req::MakeObject { values: vec![2, 0] },
            Req::ToThunk { value: 2 },
            Req::ToThunk { value: 3 },
            Req::Gc,
            Req::Call { thunk: o.below(16) as u32, pos: vec![o.below(16) as u32], named: vec![], keep: true },
            Req::Manifest { value: 3, multiline: true },
            Req::Manifest { value: 0, multiline: false },
            Req::Eval { thunk: 200, keep: false },
        ];
        let n = 4 + o.usize_below(tail.len() - 3);
        for r in tail.into_iter().take(n) {
            ops.push(Op::plain(r));
        }
    }
    if tla_family {
        ops.retain(|op| !matches!(op.req, Req::DropThunk(_)));
        let codes = [
            "local xs = [\"arr\", \"deep\"];\nxs[7]",
            "\n\n  error \"tla says no\"",
            "local pick(n) = if n > 0 then \"nested\" else 1 + \"x\" - 2; pick(0)",
            "{ a: 1, b: self.a + 1 }",
            "assert 1 == 2 : \"tla assert\"; 5",
            "std.foldl(function(a, b) a + b, [1, 2, \"three\"], 0)",
            // virtual sources have no directory of their own: only the search path applies
            "import \"util.libsonnet\"",
            "[importstr \"util.libsonnet\", import \"lib/sub.libsonnet\"]",
        ];
        let n = 2 + o.usize_below(3);
        let first_free = if merge_family { 4 } else { 1 };
        let mut at = first_free.min(ops.len());
        for _ in 0..n {
            let code = *o.pick(&codes);
            at = at + o.usize_below(ops.len() - at + 1);
            ops.insert(at.min(ops.len()), Op::plain(Req::Top { thunk: tla_fn_handle, tla: vec![("k".into(), true, code.to_string())], keep: false }));
            at += 1;
        }
    }
    if merge_family {
        ops.retain(|op| !matches!(op.req, Req::DropThunk(_)));
        // sprinkle the family's requests over the history: evaluate the operands (in either order, maybe not at all),
        // then merge through the handles; handles 0/1/2 are the three loads above
        let mut fam: Vec<Req> = Vec::new();
        if o.chance(3, 4) {
            fam.push(Req::Eval { thunk: 0, keep: true });
        }
        if o.chance(3, 4) {
            fam.push(Req::Eval { thunk: 1, keep: true });
        }
        o.shuffle(&mut fam);
        fam.push(Req::Call { thunk: 2, pos: vec![0, 1], named: vec![], keep: true });
        if o.chance(1, 2) {
            fam.push(Req::Call { thunk: 2, pos: vec![], named: vec![("patch".into(), 1), ("base".into(), 0)], keep: false });
        }
        let mut at = if tla_family { 4 } else { 3 };
        for r in fam {
            at = at + o.usize_below(ops.len() - at + 1);
            ops.insert(at.min(ops.len()), Op::plain(r));
            at += 1;
        }
    }
    if o.chance(1, 4) {
        // external variables registered in mid-history, in an order that is not alphabetical; requests before and after
        // look them up (also ones that never get registered)
        let mut vars = vec![
            ("z9", "\"zed\" + \"-nine\""),
            ("M5", "{ v: (import \"lib.libsonnet\").shallow, w: [1, 2] }"),
            ("A1", "local x = 2; x * 21"),
            ("K0", "error \"ext K0 says no\""),
        ];
        o.shuffle(&mut vars);
        let lead = ops.iter().take_while(|op| matches!(op.req, Req::Load(_))).count();
        let n = 1 + o.usize_below(vars.len());
        for (name, code) in vars.into_iter().take(n) {
            let at = lead + o.usize_below(ops.len() - lead + 1);
            ops.insert(at, Op::plain(Req::AddExtVar { name: name.to_string(), code: code.to_string() }));
        }
        // make sure something looks the variables up late as well
        files.insert("x_ext.jsonnet".into(), b"[std.extVar(\"A1\"), std.extVar(\"z9\"), std.extVar(\"M5\").v]".to_vec());
        files.insert("x_ext2.jsonnet".into(), b"std.extVar(\"A1\") + 1".to_vec());
        let at = lead + o.usize_below(ops.len() - lead + 1);
        ops.insert(at, Op::plain(Req::Load("x_ext2.jsonnet".into())));
        ops.insert(at + 1, Op::plain(Req::Eval { thunk: crate::reqs::LAST_THUNK, keep: false }));
        ops.push(Op::plain(Req::Load("x_ext.jsonnet".into())));
        ops.push(Op::plain(Req::Eval { thunk: crate::reqs::LAST_THUNK, keep: true }));
        ops.push(Op::plain(Req::Load("x_ext2.jsonnet".into())));
        ops.push(Op::plain(Req::Eval { thunk: crate::reqs::LAST_THUNK, keep: false }));
    }
    if intern_family {
        // appended in this order (LAST_THUNK needs no handle arithmetic); other requests may follow
        let lead = ops.iter().take_while(|op| matches!(op.req, Req::Load(_))).count();
        let at = lead + o.usize_below(ops.len() - lead + 1);
        let seq = vec![
            Req::Load("i_a.jsonnet".into()),
            Req::Eval { thunk: crate::reqs::LAST_THUNK, keep: false },
            Req::Load("i_b.jsonnet".into()),
            Req::Eval { thunk: crate::reqs::LAST_THUNK, keep: o.chance(1, 2) },
        ];
        // the family's loads must stay adjacent to their evaluations: insert as one block
        for (k, r) in seq.into_iter().enumerate() {
            ops.insert(at + k, Op::plain(r));
        }
        // ... and the first source once more, now that the name is known (its thunk is the one produced 2 loads ago;
        // a plain re-load gives the same comparison without handle arithmetic)
        ops.insert(at + 4, Op::plain(Req::Load("i_a.jsonnet".into())));
        ops.insert(at + 5, Op::plain(Req::Eval { thunk: crate::reqs::LAST_THUNK, keep: false }));
    }
    let inner_gc = if o.chance(1, 2) { Some(*o.pick(&[10u64, 100, 500])) } else { None };
    History { world: World { files: Arc::new(files), ext }, ops, inner_gc }
}

/// Second pass: place transient faults inside requests that create in-flight
/// state, using the frame depths measured on a fault-free pass.
pub fn place_faults(h: &mut History, depths: &[u64], seed: u64) {
    let mut f = Rng::stream(seed, "fault");
    for (i, op) in h.ops.iter_mut().enumerate() {
        if !matches!(op.req, Req::Eval { .. } | Req::Top { .. } | Req::Call { .. }) {
            continue;
        }
        if !f.chance(1, 3) {
            continue;
        }
        match f.below(6) {
            0..=3 => {
                let d = depths.get(i).copied().unwrap_or(0);
                let k = if d > 0 && f.chance(4, 5) { f.below(d + 1) } else { f.below(40) };
                op.fault.stack = Some(k as usize);
            }
            4 => {
                let p = *f.pick(&["lib.libsonnet", "lib/sub.libsonnet"]);
                op.fault.import_fail = vec![p.to_string()];
            }
            _ => op.fault.native_fail = vec!["id".to_string()],
        }
    }
}

// ---------------------------------------------------------------------------
// shared execution

pub struct SharedRun {
    pub outs: Vec<Out>,
    pub resolved: Vec<Resolved>,
    pub limits: Vec<usize>,
    pub depths: Vec<u64>,
    pub import_faults_fired: Vec<bool>,
    pub native_faults_fired: Vec<bool>,
    pub gcs_inside: u64,
    pub log: String,
    pub over_budget: bool,
}

pub fn run_shared(h: &History, seed: u64) -> SharedRun {
    use std::fmt::Write as _;
    let arena = Arena::new();
    let ctx = Ctx::new(&arena, &h.world);
    let mut ex = Exec::new(ctx);
    let mode = match h.inner_gc {
        Some(n) => SchedMode::Bernoulli(n),
        None => SchedMode::Never,
    };
    let mut sc = Sched::new(mode, AuditMode::None, Rng::stream(seed, "sched"));
    // C11 is about what requests leave behind, not about collection density: a history gets at most this many
    // collections inside its requests (one in 60 000 quick histories used to take two minutes at 500 per mille)
    sc.max_collections = 20_000;
    let sched = ex.ctx.install_sched(sc);
    let mut r = SharedRun { outs: Vec::new(), resolved: Vec::new(), limits: Vec::new(), depths: Vec::new(), import_faults_fired: Vec::new(), native_faults_fired: Vec::new(), gcs_inside: 0, log: String::new(), over_budget: false };
    for (i, op) in h.ops.iter().enumerate() {
        r.limits.push(ex.max_stack);
        if let Ok(mut s) = sched.try_borrow_mut() {
            s.stats.max_trace_len = 0;
        }
        let imp0 = ex.ctx.cb.imports_failed_injected;
        let nat0 = ex.ctx.cb.natives_failed_injected;
        let (out, res) = ex.step(i, op);
        writeln!(r.log, "op{i} {:?} fault={:?} -> {}", op.req, op.fault, out.short()).unwrap();
        let stop = out.is_panic();
        if out.is_budget() {
            r.over_budget = true;
        }
        r.outs.push(out);
        r.resolved.push(res);
        r.depths.push(sched.try_borrow().map(|s| s.stats.max_trace_len).unwrap_or(0));
        r.import_faults_fired.push(ex.ctx.cb.imports_failed_injected > imp0);
        r.native_faults_fired.push(ex.ctx.cb.natives_failed_injected > nat0);
        if stop {
            break;
        }
    }
    r.gcs_inside = sched.try_borrow().map(|s| s.stats.collections).unwrap_or(0);
    for t in ex.ctx.cb.traces.iter() {
        writeln!(r.log, "trace {t}").unwrap();
    }
    ex.ctx.remove_sched();
    r
}

// ---------------------------------------------------------------------------
// the reference model: a fresh state that has received only the prerequisites

struct Fresh<'p, 'h> {
    ctx: Ctx<'p>,
    h: &'h History,
    resolved: &'h [Resolved],
    thunks: HashMap<usize, Thunk<'p>>,
    values: HashMap<usize, Value<'p>>,
}

struct Inconclusive(String);

impl<'p, 'h> Fresh<'p, 'h> {
    fn thunk_of(&mut self, p: usize) -> Result<Thunk<'p>, Inconclusive> {
        if let Some(t) = self.thunks.get(&p) {
            return Ok(t.clone());
        }
        let t = match &self.h.ops[p].req {
            Req::Load(src) => self.ctx.load(src).map_err(|o| Inconclusive(format!("producer load {p} fails on a fresh state: {}", o.short())))?,
            Req::ToThunk { .. } => {
                let q = self.resolved[p].values[0];
                let v = self.value_of(q)?;
                self.ctx.program.value_to_thunk(&v)
            }
            other => return Err(Inconclusive(format!("op {p} ({other:?}) is not a thunk producer"))),
        };
        self.thunks.insert(p, t.clone());
        Ok(t)
    }

    fn value_of(&mut self, q: usize) -> Result<Value<'p>, Inconclusive> {
        if let Some(v) = self.values.get(&q) {
            return Ok(v.clone());
        }
        self.ctx.program.set_max_stack(INF_STACK);
        let (out, v) = self.request(q)?;
        match v {
            Some(v) => {
                self.values.insert(q, v.clone());
                Ok(v)
            }
            None => Err(Inconclusive(format!("producer request {q} gives no value on a fresh state: {}", out.short()))),
        }
    }

    /// Executes request `r` fault-free on this fresh state (the limit is set by the caller).
    fn request(&mut self, r: usize) -> Result<(Out, Option<Value<'p>>), Inconclusive> {
        let res = &self.resolved[r];
        let req = self.h.ops[r].req.clone();
        Ok(match &req {
            Req::Load(src) => match self.ctx.load(src) {
                Ok(_) => (Out::Ok(String::new()), None),
                Err(o) => (o, None),
            },
            Req::Eval { .. } => {
                let t = self.thunk_of(res.thunk.unwrap())?;
                self.ctx.eval_out(&t)
            }
            Req::Top { tla, .. } => {
                let t = self.thunk_of(res.thunk.unwrap())?;
                do_top(&mut self.ctx, &t, tla)
            }
            Req::Call { .. } => {
                let t = self.thunk_of(res.thunk.unwrap())?;
                let mut pos = Vec::new();
                for p in &res.pos {
                    pos.push(self.thunk_of(*p)?);
                }
                let mut named = Vec::new();
                for (n, p) in &res.named {
                    named.push((n.clone(), self.thunk_of(*p)?));
                }
                self.ctx.call_out(&t, &pos, &named)
            }
            Req::Manifest { multiline, .. } => {
                let v = self.value_of(res.values[0])?;
                (self.ctx.manifest(&v, *multiline), None)
            }
            Req::MakeArray { .. } => {
                let mut vs = Vec::new();
                for q in &res.values {
                    vs.push(self.value_of(*q)?);
                }
                let (o, v) = do_make_array(&mut self.ctx, &vs);
                (o, Some(v))
            }
            Req::MakeObject { .. } => {
                let mut vs = Vec::new();
                for q in &res.values {
                    vs.push(self.value_of(*q)?);
                }
                let (o, v) = do_make_object(&mut self.ctx, &vs);
                (o, Some(v))
            }
            _ => (Out::Ok(String::new()), None),
        })
    }
}

fn fresh_outcome(h: &History, resolved: &[Resolved], r: usize, limit: usize) -> Result<Out, String> {
    let arena = Arena::new();
    let mut ctx = Ctx::new(&arena, &h.world);
    // no collections, but the step budget applies to reference runs as well
    ctx.install_sched(Sched::new(SchedMode::Never, AuditMode::None, Rng::from_seed(0)));
    // external variables registered before this request are part of the state it runs against
    for (k, op) in h.ops.iter().enumerate().take(r) {
        if let (Req::AddExtVar { name, code }, false) = (&op.req, resolved[k].noop) {
            ctx.add_ext(name, true, code);
        }
    }
    let mut f = Fresh { ctx, h, resolved, thunks: HashMap::new(), values: HashMap::new() };
    // prerequisites are built with ample head-room, the request itself under `limit`
    let res = &resolved[r];
    let pre: Result<(), Inconclusive> = (|| {
        f.ctx.program.set_max_stack(INF_STACK);
        if let Some(p) = res.thunk {
            if !matches!(h.ops[r].req, Req::DropThunk(_)) {
                f.thunk_of(p)?;
            }
        }
        for p in res.pos.iter().chain(res.named.iter().map(|(_, p)| p)) {
            f.thunk_of(*p)?;
        }
        if !matches!(h.ops[r].req, Req::DropValue(_)) {
            for q in &res.values {
                f.value_of(*q)?;
            }
        }
        Ok(())
    })();
    if let Err(Inconclusive(m)) = pre {
        return Err(m);
    }
    f.ctx.program.set_max_stack(limit);
    let out = match f.request(r) {
        Ok((o, _)) if o.is_budget() => Err("step budget exceeded on the fresh state".to_string()),
        Ok((o, _)) => Ok(o),
        Err(Inconclusive(m)) => Err(m),
    };
    f.ctx.remove_sched();
    out
}

// ---------------------------------------------------------------------------
// oracle

fn same(a: &Out, b: &Out) -> bool {
    match (a, b) {
        // where the frame limit bites depends on how warm the state is; only the kind is comparable
        (Out::Err { kind: k1, .. }, Out::Err { kind: k2, .. }) if k1 == "StackOverflow" && k2 == "StackOverflow" => true,
        _ => a == b,
    }
}

fn is_overflow(o: &Out) -> bool {
    matches!(o, Out::Err { kind, .. } if kind == "StackOverflow")
}

#[derive(Clone, Debug)]
pub struct Failure {
    pub invariant: String,
    pub class: String,
    pub detail: String,
    pub op_index: usize,
    pub observed: Json,
    pub expected: Json,
}

#[derive(Default)]
pub struct JudgeStats {
    pub requests_compared: u64,
    pub inconclusive: u64,
    pub relaxed_r1: u64,
    pub faulted_failed_legitimately: u64,
    pub probes: BTreeMap<String, u64>,
    pub sigs: Vec<u64>,
    pub inconclusive_notes: Vec<String>,
}

pub fn judge(h: &History, run: &SharedRun, st: &mut JudgeStats) -> Option<Failure> {
    if run.over_budget {
        st.inconclusive += 1;
        return None;
    }
    // which shared thunks did earlier aborted requests start? (producer ids of thunks they evaluated)
    let mut aborted_producers: BTreeSet<usize> = BTreeSet::new();
    let mut eval_count: BTreeMap<usize, u32> = BTreeMap::new();
    let mut gc_since_abort = false;
    let mut any_abort = false;
    for (r, out) in run.outs.iter().enumerate() {
        let op = &h.ops[r];
        if let Out::Panic(m) = out {
            return Some(Failure { invariant: "R4".into(), class: format!("panic:{}", m.chars().take(50).collect::<String>()), detail: format!("request {r} {:?} panicked: {m}", op.req), op_index: r, observed: out.to_json(), expected: Json::str("no panic") });
        }
        let res = &run.resolved[r];
        if res.noop || !matches!(op.req, Req::Load(_) | Req::Eval { .. } | Req::Top { .. } | Req::Call { .. } | Req::Manifest { .. } | Req::MakeArray { .. } | Req::MakeObject { .. }) {
            if matches!(op.req, Req::Gc) && any_abort {
                gc_since_abort = true;
            }
            continue;
        }
        st.requests_compared += 1;
        let faulted = !op.fault.is_none();
        // probes
        if matches!(&op.req, Req::Load(n) if n == "lib.libsonnet") {
            // generator sanity: the shared library is meant to load (a library that does not parse makes every
            // history trivial); the batch turns a non-zero count into a harness error
            bump(&mut st.probes, if matches!(out, Out::Ok(_)) { "library_loaded_ok" } else { "library_failed_to_load" });
        }
        if let Some(p) = res.thunk {
            let n = eval_count.entry(p).or_insert(0);
            *n += 1;
            if *n == 3 {
                bump(&mut st.probes, "same_thunk_evaluated_3_times");
            }
            if aborted_producers.contains(&p) {
                bump(&mut st.probes, "request_retouches_thunk_of_earlier_aborted_request");
                if gc_since_abort {
                    bump(&mut st.probes, "gc_between_abort_and_retouch");
                }
                st.sigs.push(crate::rng::fnv1a64(&format!("{:?}|{:?}|{}", h.ops.iter().take(r + 1).map(|o| std::mem::discriminant(&o.req)).collect::<Vec<_>>(), h.ops.iter().take(r + 1).map(|o| (o.fault.stack.is_some(), !o.fault.import_fail.is_empty(), !o.fault.native_fail.is_empty())).collect::<Vec<_>>(), out.kind_name())));
            }
        }
        let limit = run.limits[r];
        let fresh_l = match fresh_outcome(h, &run.resolved, r, limit) {
            Ok(o) => o,
            Err(m) => {
                st.inconclusive += 1;
                if st.inconclusive_notes.len() < 3 {
                    st.inconclusive_notes.push(m);
                }
                continue;
            }
        };
        let aborted = matches!(out, Out::Err { .. });
        if aborted {
            any_abort = true;
            gc_since_abort = false;
            if let Some(p) = res.thunk {
                aborted_producers.insert(p);
            }
            for p in res.pos.iter().chain(res.named.iter().map(|(_, p)| p)) {
                aborted_producers.insert(*p);
            }
            bump(&mut st.probes, &format!("aborted_request:{}", out.kind_name()));
        }
        if same(out, &fresh_l) {
            continue;
        }
        let fresh_inf = match fresh_outcome(h, &run.resolved, r, INF_STACK) {
            Ok(o) => o,
            Err(m) => {
                st.inconclusive += 1;
                if st.inconclusive_notes.len() < 3 {
                    st.inconclusive_notes.push(m);
                }
                continue;
            }
        };
        // premise of the relaxations: more head-room never changes an answer (C10, not claimed here)
        if !(is_overflow(&fresh_l) || same(&fresh_l, &fresh_inf)) {
            st.inconclusive += 1;
            if st.inconclusive_notes.len() < 3 {
                st.inconclusive_notes.push(format!("fresh state is not monotone in the frame limit for request {r}: limit {limit} gives {}, limit {INF_STACK} gives {}", fresh_l.short(), fresh_inf.short()));
            }
            continue;
        }
        if is_overflow(&fresh_l) && same(out, &fresh_inf) {
            st.relaxed_r1 += 1;
            continue;
        }
        if faulted {
            if same(out, &fresh_inf) {
                continue;
            }
            let ok = (op.fault.stack.is_some() && is_overflow(out))
                || (run.import_faults_fired[r] && matches!(out, Out::Err { kind, .. } if kind == "ImportFailed"))
                || (run.native_faults_fired[r] && matches!(out, Out::Err { kind, .. } if kind == "NativeCallFailed"));
            if ok {
                st.faulted_failed_legitimately += 1;
                continue;
            }
        }
        let inv = if faulted { "R2" } else if eval_count.get(&res.thunk.unwrap_or(usize::MAX)).copied().unwrap_or(0) > 1 { "R3" } else { "R1" };
        let class = format!("shared={},fresh={}", out.kind_name(), fresh_l.kind_name());
        let class = if out.kind_name() == fresh_l.kind_name() {
            match (out, &fresh_l) {
                (Out::Err { payload: p1, trace: t1, .. }, Out::Err { payload: p2, trace: t2, .. }) if p1 == p2 && t1 != t2 => format!("{class},stack-trace-differs"),
                _ => format!("{class},content-differs"),
            }
        } else {
            class
        };
        return Some(Failure {
            invariant: inv.into(),
            class,
            detail: format!("request {r} {:?}{} after {} earlier requests: shared state answered {}, a fresh state answers {} (limit {limit}) / {} (ample limit)", op.req, if faulted { format!(" with fault {:?}", op.fault) } else { String::new() }, r, out.short(), fresh_l.short(), fresh_inf.short()),
            op_index: r,
            observed: out.to_json(),
            expected: fresh_l.to_json(),
        });
    }
    None
}

pub fn check(h: &History, seed: u64, st: &mut JudgeStats) -> (SharedRun, Option<Failure>) {
    let run = run_shared(h, seed);
    let f = judge(h, &run, st);
    (run, f)
}

pub fn to_violation(h: &History, f: &Failure, run_index: u64, log: &str, minimised: bool) -> Violation {
    Violation {
        property: "C11".into(),
        engine: "sim-hist".into(),
        invariant: f.invariant.clone(),
        class: f.class.clone(),
        detail: f.detail.clone(),
        run_index,
        scenario: history_to_json(h),
        observed: f.observed.clone(),
        expected: f.expected.clone(),
        event_log_sha256: crate::util::sha256_hex(log.as_bytes()),
        minimised,
    }
}

pub fn minimise(h: &History, class: &str, seed: u64) -> History {
    let mut budget = 300usize;
    let mut h = h.clone();
    let fails = |h: &History| -> bool {
        let mut st = JudgeStats::default();
        matches!(check(h, seed, &mut st).1, Some(f) if f.class == class)
    };
    if h.inner_gc.is_some() {
        let mut h2 = h.clone();
        h2.inner_gc = None;
        budget -= 1;
        if fails(&h2) {
            h = h2;
        }
    }
    let ops = h.ops.clone();
    let h0 = h.clone();
    let min = crate::util::ddmin(&ops, &mut budget, |cand| {
        let mut h2 = h0.clone();
        h2.ops = cand.to_vec();
        fails(&h2)
    });
    h.ops = min;
    // drop faults that are not needed
    for i in 0..h.ops.len() {
        if !h.ops[i].fault.is_none() && budget > 0 {
            let mut h2 = h.clone();
            h2.ops[i].fault = Fault::default();
            budget -= 1;
            if fails(&h2) {
                h = h2;
            }
        }
    }
    // drop library fields line by line
    let lib = String::from_utf8_lossy(&h.world.files["lib.libsonnet"]).into_owned();
    let lines: Vec<String> = lib.lines().map(String::from).collect();
    let h0 = h.clone();
    let min = crate::util::ddmin(&lines, &mut budget, |cand| {
        let mut h2 = h0.clone();
        let mut files = (*h2.world.files).clone();
        files.insert("lib.libsonnet".into(), (cand.join("\n") + "\n").into_bytes());
        h2.world.files = Arc::new(files);
        fails(&h2)
    });
    let mut files = (*h.world.files).clone();
    files.insert("lib.libsonnet".into(), (min.join("\n") + "\n").into_bytes());
    // drop unused files
    let used: BTreeSet<String> = h.ops.iter().filter_map(|o| if let Req::Load(s) = &o.req { Some(s.clone()) } else { None }).collect();
    files.retain(|k, _| used.contains(k) || k.starts_with("lib"));
    h.world.files = Arc::new(files);
    h
}

// ---------------------------------------------------------------------------
// batch

#[derive(Default)]
pub struct Batch {
    pub histories: u64,
    pub faulted_histories: u64,
    pub requests: u64,
    pub requests_compared: u64,
    pub inconclusive: u64,
    pub relaxed_r1: u64,
    pub faulted_failed_legitimately: u64,
    pub fault_kinds: BTreeMap<String, u64>,
    pub probes: BTreeMap<String, u64>,
    pub violations: Vec<Violation>,
    pub samples: Vec<Json>,
    pub distinct_nontrivial: usize,
    pub inconclusive_notes: Vec<String>,
    pub determinism_reexecuted: u64,
    pub determinism_mismatches: u64,
    pub gcs_inside_requests: u64,
    pub hashes: Vec<u64>,
}

struct One {
    faulted: bool,
    requests: u64,
    st: JudgeStats,
    fault_kinds: BTreeMap<String, u64>,
    failure: Option<Violation>,
    sample: Option<Json>,
    log_hash: u64,
    gcs_inside: u64,
}

fn one_run(root: u64, i: u64, want_sample: bool) -> One {
    // VERIF_SLOW=<ms> (debugging aid, wall clock is read only for this report): name histories slower than that
    let slow_ms: Option<u128> = std::env::var("VERIF_SLOW").ok().and_then(|s| s.parse().ok());
    let t0 = slow_ms.map(|_| std::time::Instant::now());
    let r = one_run_inner(root, i, want_sample);
    if let (Some(ms), Some(t0)) = (slow_ms, t0) {
        let el = t0.elapsed().as_millis();
        if el >= ms {
            eprintln!("slow history {i}: {el} ms, {} requests", r.requests);
            if std::env::var("VERIF_SLOW_DUMP").is_ok() {
                let seed = crate::rng::run_seed(root, "sim-hist", i);
                let h = gen_history(seed, i % 2 == 1);
                eprintln!("{}", history_to_json(&h).to_string());
            }
        }
    }
    r
}

fn one_run_inner(root: u64, i: u64, want_sample: bool) -> One {
    let seed = crate::rng::run_seed(root, "sim-hist", i);
    // fault-free and fault-injecting histories are separate configurations
    let with_faults = i % 2 == 1;
    let mut h = gen_history(seed, with_faults);
    let mut fault_kinds = BTreeMap::new();
    if with_faults {
        let mut clean = h.clone();
        clean.inner_gc = None;
        let pass1 = run_shared(&clean, seed);
        place_faults(&mut h, &pass1.depths, seed);
    }
    let mut st = JudgeStats::default();
    let (run, f) = check(&h, seed, &mut st);
    for (r, op) in h.ops.iter().enumerate().take(run.outs.len()) {
        if op.fault.stack.is_some() && is_overflow(&run.outs[r]) {
            bump(&mut fault_kinds, "frame_limit_abort");
        }
        if run.import_faults_fired[r] {
            bump(&mut fault_kinds, "import_callback_failure");
        }
        if run.native_faults_fired[r] {
            bump(&mut fault_kinds, "native_callback_failure");
        }
        if matches!(op.req, Req::Gc) {
            bump(&mut fault_kinds, "explicit_gc_between_requests");
        }
        if let Out::Err { kind, .. } = &run.outs[r] {
            if op.fault.is_none() && (kind == "ExplicitError" || kind == "AssertFailed") {
                bump(&mut fault_kinds, "evaluation_aborted_by_error_or_assert");
            }
            if op.fault.is_none() && kind == "StackOverflow" {
                bump(&mut fault_kinds, "persistent_limit_abort");
            }
        }
    }
    let sample = if want_sample {
        Some(Json::obj(vec![("run", Json::Num(i as f64)), ("scenario", history_to_json(&h)), ("outcomes", Json::Arr(run.outs.iter().map(|o| Json::str(o.short())).collect()))]))
    } else {
        None
    };
    let failure = f.map(|f| {
        if crate::util::claim_minimisation(&f.class) {
            let m = minimise(&h, &f.class, seed);
            let mut st2 = JudgeStats::default();
            if let (mrun, Some(mf)) = check(&m, seed, &mut st2) {
                if mf.class == f.class {
                    return to_violation(&m, &mf, i, &mrun.log, true);
                }
            }
        }
        to_violation(&h, &f, i, &run.log, false)
    });
    One { faulted: with_faults, requests: h.ops.len() as u64, st, fault_kinds, failure, sample, log_hash: crate::rng::fnv1a64(&run.log), gcs_inside: run.gcs_inside }
}

pub fn batch(root: u64, histories: u64, workers: usize) -> Batch {
    let mut b = Batch { histories, ..Default::default() };
    let mut sigs = std::collections::HashSet::new();
    let keep_hashes = std::env::var("VERIF_HASH_DUMP").is_ok();
    let step = (histories / 64).max(1);
    let mut sampled: Vec<(u64, u64)> = Vec::new();
    const CHUNK: u64 = 50_000;
    let mut base = 0u64;
    while base < histories {
        let n = CHUNK.min(histories - base);
        let results = crate::util::run_pool(n, workers, |k| one_run(root, base + k, base + k < 4));
        for (k, r) in results.iter().enumerate() {
            let i = base + k as u64;
            if keep_hashes {
                b.hashes.push(r.log_hash);
            }
            if i % step == 0 && r.failure.is_none() && sampled.len() < 64 {
                sampled.push((i, r.log_hash));
            }
            if r.faulted {
                b.faulted_histories += 1;
            }
            b.requests += r.requests;
            b.requests_compared += r.st.requests_compared;
            b.inconclusive += r.st.inconclusive;
            b.relaxed_r1 += r.st.relaxed_r1;
            b.faulted_failed_legitimately += r.st.faulted_failed_legitimately;
            b.gcs_inside_requests += r.gcs_inside;
            crate::util::merge_counts(&mut b.probes, &r.st.probes);
            crate::util::merge_counts(&mut b.fault_kinds, &r.fault_kinds);
            sigs.extend(r.st.sigs.iter().copied());
            for n in &r.st.inconclusive_notes {
                if b.inconclusive_notes.len() < 5 {
                    b.inconclusive_notes.push(n.clone());
                }
            }
            if let Some(s) = &r.sample {
                b.samples.push(s.clone());
            }
            if let Some(v) = &r.failure {
                if b.violations.len() < 500 {
                    b.violations.push(v.clone());
                }
            }
        }
        base += n;
    }
    b.distinct_nontrivial = sigs.len();
    for (i, h) in sampled {
        let again = one_run(root, i, false);
        b.determinism_reexecuted += 1;
        if again.log_hash != h {
            b.determinism_mismatches += 1;
        }
    }
    b
}

pub fn replay(scenario: &Json) -> Result<Option<Violation>, String> {
    let h = history_from_json(scenario).ok_or("bad sim-hist scenario")?;
    let mut st = JudgeStats::default();
    let (run, f) = check(&h, 0, &mut st);
    Ok(f.map(|f| to_violation(&h, &f, 0, &run.log, true)))
}

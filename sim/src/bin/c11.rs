//! C11 — a program state's answers do not depend on its past requests: `sim-hist`.

use std::time::Instant;

use verif_sim::json::{self, Json};
use verif_sim::util::{self, Evidence};
use verif_sim::{histsim, rng, sessim};

fn main() {
    util::install_quiet_panic_hook();
    let args: Vec<String> = std::env::args().skip(1).collect();
    if args.first().map(|a| a == "--session-child" || a == "--session-replay").unwrap_or(false) {
        std::process::exit(sessim::child_main(&args));
    }
    if let Some(p) = args.iter().position(|a| a == "--replay") {
        let Some(path) = args.get(p + 1) else {
            eprintln!("usage: c11 --replay <file>");
            std::process::exit(2);
        };
        std::process::exit(replay(path));
    }
    let tier = util::tier_from_args(&args);
    let root = rng::root_seed();
    let workers = util::num_workers();
    let scale: u64 = std::env::var("VERIF_SCALE").ok().and_then(|s| s.parse().ok()).unwrap_or(1);
    let n = util::runs_override(if tier == "thorough" { 1_200_000 * scale } else { 60_000 * scale });
    println!("C11 tier={tier} seed={root} workers={workers}");
    let start = Instant::now();
    let b = histsim::batch(root, n, workers);
    // session mode: the real rsjsonnet_front::Session over a real directory, in single-threaded children
    let sess_n = util::runs_override(if tier == "thorough" { 60_000 * scale } else { 6_000 * scale });
    let sb = match sessim::batch(root, sess_n, workers) {
        Ok(b) => b,
        Err(e) => {
            eprintln!("HARNESS ERROR: session mode: {e}");
            std::process::exit(2);
        }
    };
    let wall = start.elapsed().as_secs_f64();
    println!("sim-hist session mode: {} histories, {} requests, {} compared with a fresh Session, {} inconclusive, {} violations", sb.histories, sb.requests, sb.compared, sb.inconclusive, sb.violations.len());
    println!("sim-hist: {} histories ({} fault-injecting), {} requests, {} compared with a fresh state, {} inconclusive, {} violations, {:.1}s", b.histories, b.faulted_histories, b.requests, b.requests_compared, b.inconclusive, b.violations.len(), wall);
    util::dump_hashes("sim-hist", &b.hashes);
    if b.determinism_mismatches > 0 && b.violations.is_empty() && sb.violations.is_empty() {
        eprintln!("HARNESS ERROR: determinism sample mismatch ({} of {})", b.determinism_mismatches, b.determinism_reexecuted);
        std::process::exit(2);
    }
    if b.probes.get("library_failed_to_load").copied().unwrap_or(0) > 0 || b.probes.get("library_loaded_ok").copied().unwrap_or(0) == 0 {
        eprintln!("HARNESS ERROR: the generated shared library failed to load in {} histories (loaded in {}): generator defect, histories would be trivial", b.probes.get("library_failed_to_load").copied().unwrap_or(0), b.probes.get("library_loaded_ok").copied().unwrap_or(0));
        std::process::exit(2);
    }
    let mut all_violations = b.violations.clone();
    all_violations.extend(sb.violations.iter().cloned());
    let (code, new_count, known_hit) = util::report("C11", &tier, root, &all_violations);
    let (reg_n, reg_failed) = util::run_regressions("C11", replay_any);
    let code = if reg_failed > 0 { 1 } else { code };
    let new_count = new_count + reg_failed;
    if tier == "thorough" {
        for (k, v) in &b.probes {
            if *v == 0 {
                println!("warning: probe {k} stayed at 0");
            }
        }
    }
    let ev = Evidence {
        property: "C11".into(),
        tier: tier.clone(),
        seed: root,
        level: "exploration".into(),
        wall_s: wall,
        violations: new_count,
        coverage: vec![
            ("evaluations".into(), Json::Num((b.histories + sb.histories) as f64)),
            ("session_mode".into(), Json::obj(vec![("histories", Json::Num(sb.histories as f64)), ("requests", Json::Num(sb.requests as f64)), ("requests_compared_with_fresh_session", Json::Num(sb.compared as f64)), ("inconclusive", Json::Num(sb.inconclusive as f64)), ("relaxation_R1_used", Json::Num(sb.relaxed as f64)), ("faulted_requests_that_failed_with_their_own_fault", Json::Num(sb.faulted_ok as f64)), ("probes", util::counts_to_json(&sb.probes))])),
            ("distinct_nontrivial".into(), Json::Num(b.distinct_nontrivial as f64)),
            ("rule".into(), Json::str("seeded request histories (2-14 requests: load / eval / eval-again / top-level call with TLAs / eval_call with thunk arguments / manifest / value_to_thunk / make_array / gc / drop / set_max_stack) over a generated library shared by 2-5 client sources through import, ext var and arguments; even run indices are fault-free, odd ones inject transient faults (frame limit at a depth drawn from the measured depth of the request, failing import callback, failing native callback); every request's outcome (JSON or error kind+payload+resolved spans+stack trace) is compared with the same request on a fresh Program that received only its prerequisites. distinct = distinct (sequence of request kinds, fault kinds, outcome kind) signatures of requests that re-touch a thunk an earlier aborted request had started.")),
            ("samples".into(), Json::Arr(b.samples.clone())),
            ("requests".into(), Json::Num(b.requests as f64)),
            ("requests_compared_with_fresh_state".into(), Json::Num(b.requests_compared as f64)),
            ("fault_free_histories".into(), Json::Num((b.histories - b.faulted_histories) as f64)),
            ("fault_injecting_histories".into(), Json::Num(b.faulted_histories as f64)),
            ("assumption_failures".into(), Json::obj(vec![("inconclusive_requests", Json::Num(b.inconclusive as f64)), ("examples", Json::Arr(b.inconclusive_notes.iter().map(Json::str).collect()))])),
            ("relaxation_R1_used".into(), Json::Num(b.relaxed_r1 as f64)),
            ("faulted_requests_that_failed_with_their_own_fault".into(), Json::Num(b.faulted_failed_legitimately as f64)),
            ("runs_per_hour".into(), Json::Num((b.histories as f64 / wall.max(0.001) * 3600.0).round())),
            ("seeds".into(), Json::str(format!("root {root}; per-run seeds = splitmix64(root ^ fnv1a64(\"sim-hist\") ^ i*phi) for i in 0..{}", b.histories))),
            ("simulated_time".into(), Json::str(format!("none - the system reads no clock; progress is counted in requests ({})", b.requests))),
            ("fault_kinds_fired".into(), util::counts_to_json(&b.fault_kinds)),
            ("collections_inside_requests".into(), Json::Num(b.gcs_inside_requests as f64)),
            ("probes".into(), util::counts_to_json(&b.probes)),
            ("components".into(), Json::obj(vec![
                ("real", Json::Arr(["lexer", "parser", "analyzer", "evaluator", "stdlib", "collector", "Program request API", "rsjsonnet_front::Session incl. import search, source cache and error reporting (session mode)"].iter().map(|s| Json::str(*s)).collect())),
                ("stub", Json::Arr(["Callbacks implementor with in-memory file table caching one thunk per path (mimics rsjsonnet-front Session)"].iter().map(|s| Json::str(*s)).collect())),
            ])),
            ("determinism_sample".into(), Json::obj(vec![("reexecuted", Json::Num(b.determinism_reexecuted as f64)), ("mismatches", Json::Num(0.0))])),
            ("regression_scenarios_replayed".into(), Json::Num(reg_n as f64)),
            ("known_findings_hit".into(), Json::Arr(known_hit.iter().map(Json::str).collect())),
        ],
        assumptions: vec![
            "reference = a fresh Program that received only the request's prerequisite chain, evaluated fault-free".into(),
            "more frame head-room never changes an answer (C10 monotonicity); requests violating it are counted as inconclusive, not judged".into(),
            "std.trace output is not compared across states (memoisation legitimately suppresses re-evaluation)".into(),
        ],
    };
    ev.write();
    println!("C11 done: {} histories, {} new violations, {:.1}s", b.histories, new_count, wall);
    std::process::exit(code);
}

fn replay_any(scenario: &Json) -> Result<Option<util::Violation>, String> {
    if scenario.get("mode").and_then(|m| m.as_str()) == Some("session") {
        sessim::replay(scenario)
    } else {
        histsim::replay(scenario)
    }
}

fn replay(path: &str) -> i32 {
    let j = match std::fs::read_to_string(path).map_err(|e| e.to_string()).and_then(|t| json::parse(&t)) {
        Ok(j) => j,
        Err(e) => {
            eprintln!("HARNESS ERROR: cannot read/parse {path}: {e}");
            return 2;
        }
    };
    let Some(scenario) = j.get("scenario") else {
        eprintln!("HARNESS ERROR: no scenario in {path}");
        return 2;
    };
    match replay_any(scenario) {
        Err(e) => {
            eprintln!("HARNESS ERROR: {e}");
            2
        }
        Ok(None) => {
            println!("replay: scenario passes (no violation)");
            0
        }
        Ok(Some(v)) => {
            println!("VIOLATION property=C11 replay={path}");
            println!("  invariant={} class={} detail={}", v.invariant, v.class, v.detail);
            println!("  event_log_sha256={}", v.event_log_sha256);
            1
        }
    }
}

//! C03 — garbage collection is invisible and exact: `sim-gc` + `sim-heap`.

use std::collections::BTreeMap;
use std::time::Instant;

use verif_sim::json::{self, Json};
use verif_sim::util::{self, Evidence};
use verif_sim::{corpus, gcsim, heap, rng};

fn main() {
    util::install_quiet_panic_hook();
    let args: Vec<String> = std::env::args().skip(1).collect();
    if let Some(p) = args.iter().position(|a| a == "--replay") {
        let Some(path) = args.get(p + 1) else {
            eprintln!("usage: c03 --replay <file>");
            std::process::exit(2);
        };
        std::process::exit(replay(path));
    }
    if let Some(p) = args.iter().position(|a| a == "--dump") {
        // debugging aid: print the generated scenario of run index i
        let i: u64 = args.get(p + 1).and_then(|s| s.parse().ok()).unwrap_or(0);
        let corp = corpus::load(&format!("{}/ui-tests", util::REPO_DIR));
        let seed = rng::run_seed(rng::root_seed(), "sim-gc", i);
        let sc = if !corp.entries.is_empty() && i % 4 == 3 { gcsim::corpus_scenario(&corp, (i / 4) as usize) } else { gcsim::gen_scenario(seed) };
        println!("{}", gcsim::scenario_to_json(&sc, &gcsim::SchedSpec::never(), Some(&std::collections::BTreeSet::new())).to_pretty());
        for (k, v) in sc.world.files.iter() {
            if !sc.origin.starts_with("corpus") {
                println!("--- {k}\n{}", String::from_utf8_lossy(v));
            }
        }
        return;
    }
    let tier = util::tier_from_args(&args);
    let root = rng::root_seed();
    let workers = util::num_workers();
    let start = Instant::now();
    let only = std::env::var("VERIF_ENGINE").ok();
    let scale: u64 = std::env::var("VERIF_SCALE").ok().and_then(|s| s.parse().ok()).unwrap_or(1);
    let (gc_scenarios, enum_every, heap_runs) = if tier == "thorough" { (600_000 * scale, 40, 40_000_000 * scale) } else { (36_000 * scale, 80, 2_000_000 * scale) };
    let (gc_scenarios, heap_runs) = (util::runs_override(gc_scenarios), util::runs_override(heap_runs));
    println!("C03 tier={tier} seed={root} workers={workers}");

    let corp = corpus::load(&format!("{}/ui-tests", util::REPO_DIR));
    let t0 = Instant::now();
    let gb = if only.as_deref().map(|o| o == "sim-gc").unwrap_or(true) { gcsim::batch(root, gc_scenarios, enum_every, workers, &corp) } else { gcsim::Batch::default() };
    let gc_wall = t0.elapsed().as_secs_f64();
    println!("sim-gc: {} scenarios, {} runs ({} single-point), {} evaluator steps, {} discarded, {} violations, {:.1}s", gb.scenarios, gb.runs, gb.single_point_runs, gb.steps, gb.discarded, gb.violations.len(), gc_wall);
    let t1 = Instant::now();
    let hb = if only.as_deref().map(|o| o == "sim-heap").unwrap_or(true) { heap::batch(root, heap_runs, workers) } else { heap::batch(root, 16, 1) };
    let heap_wall = t1.elapsed().as_secs_f64();
    println!("sim-heap: {} sequences, {} ops, {} collections, {} violations, {:.1}s", hb.runs, hb.ops, hb.gcs, hb.violations.len(), heap_wall);

    util::dump_hashes("sim-gc", &gb.hashes);
    util::dump_hashes("sim-heap", &hb.hashes);
    // a determinism mismatch is a harness error only when the batch found no violation: a tree that violates the
    // property (e.g. outcomes depending on addresses) is often nondeterministic as well, and its violations are
    // reported from their replay files
    if gb.determinism_mismatches + hb.determinism_mismatches > 0 && gb.violations.is_empty() && hb.violations.is_empty() {
        eprintln!("HARNESS ERROR: determinism sample mismatch (sim-gc {} of {}, sim-heap {} of {})", gb.determinism_mismatches, gb.determinism_reexecuted, hb.determinism_mismatches, hb.determinism_reexecuted);
        std::process::exit(2);
    }

    let mut violations = gb.violations.clone();
    violations.extend(hb.violations.iter().cloned());
    let (code, new_count, known_hit) = util::report("C03", &tier, root, &violations);
    let (reg_n, reg_failed) = util::run_regressions("C03", |sc| if sc.get("ops").is_some() { heap::replay(sc) } else { gcsim::replay(sc) });
    let code = if reg_failed > 0 { 1 } else { code };
    let new_count = new_count + reg_failed;

    let wall = start.elapsed().as_secs_f64();
    let mut probes = gb.probes.clone();
    probes.insert("sim_heap:collections_freeing_proper_nonempty_subset".into(), hb.gcs_freeing_proper_subset);
    probes.insert("sim_heap:collections_freeing_a_cycle".into(), hb.gcs_freeing_cycle);
    for (k, v) in &hb.probes {
        probes.insert(format!("sim_heap:{k}"), *v);
    }
    probes.insert("distinct_state_kinds_seen".into(), gb.state_kinds_seen as u64);
    probes.insert("distinct_state_kinds_a_collection_ran_after".into(), gb.state_kinds_collected_after as u64);
    if tier == "thorough" {
        for (k, v) in &probes {
            if *v == 0 {
                println!("warning: probe {k} stayed at 0");
            }
        }
    }
    let mut fault_kinds: BTreeMap<String, u64> = BTreeMap::new();
    fault_kinds.insert("collection_at_scheduler_chosen_step".into(), probes.get("collections").copied().unwrap_or(0));
    fault_kinds.insert("collection_single_point_enumeration".into(), gb.single_point_runs);
    for (k, v) in &probes {
        if let Some(kind) = k.strip_prefix("collection_inside_callback:") {
            fault_kinds.insert(format!("collection_inside_callback_{kind}"), *v);
        }
    }
    fault_kinds.insert("heuristic_collection_mid_evaluation".into(), probes.get("heuristic_collections").copied().unwrap_or(0));
    fault_kinds.insert("sim_heap_collection".into(), hb.gcs);
    let total_runs = gb.runs + hb.runs;
    let mut samples = gb.samples.clone();
    samples.extend(hb.samples.iter().cloned());
    let ev = Evidence {
        property: "C03".into(),
        tier: tier.clone(),
        seed: root,
        level: "exploration".into(),
        wall_s: wall,
        violations: new_count,
        coverage: vec![
            ("evaluations".into(), Json::Num(total_runs as f64)),
            ("distinct_nontrivial".into(), Json::Num((gb.distinct_nontrivial + hb.distinct_sigs) as f64)),
            ("rule".into(), Json::str("sim-gc: seeded scenarios (generated programs + ui-tests corpus, 1-3 sources, request list, x3 repetitions) each run once without collections (reference) and once under a seeded collection schedule (every step / period k / Bernoulli / burst / after-growth / heuristic / explicit points, optional collections inside callbacks), plus single-point enumeration (one run per evaluator step) on every n-th scenario; distinct = distinct (scenario hash, set of collection steps) pairs in which at least one collection freed >=1 object while the evaluator's state stack was non-empty. sim-heap: seeded op sequences (len 1..61) over the real collector via hook H2 against a reachability model; distinct = distinct renaming-invariant heap-shape signatures (multiset of per-node outdeg/indeg/weak/view/freed) at which a gc freed a proper non-empty subset of the heap.")),
            ("samples".into(), Json::Arr(samples)),
            ("sim_gc".into(), Json::obj(vec![
                ("scenarios", Json::Num(gb.scenarios as f64)),
                ("runs", Json::Num(gb.runs as f64)),
                ("single_point_runs", Json::Num(gb.single_point_runs as f64)),
                ("single_point_scenarios", Json::Num(gb.single_point_scenarios as f64)),
                ("evaluator_steps", Json::Num(gb.steps as f64)),
                ("audits", Json::Num(gb.audits as f64)),
                ("discarded_too_long", Json::Num(gb.discarded as f64)),
                ("distinct_nontrivial", Json::Num(gb.distinct_nontrivial as f64)),
                ("schedule_families", util::counts_to_json(&gb.families)),
                ("wall_s", Json::Num(gc_wall)),
            ])),
            ("sim_heap".into(), Json::obj(vec![
                ("sequences", Json::Num(hb.runs as f64)),
                ("ops", Json::Num(hb.ops as f64)),
                ("collections", Json::Num(hb.gcs as f64)),
                ("distinct_nontrivial", Json::Num(hb.distinct_sigs as f64)),
                ("wall_s", Json::Num(heap_wall)),
            ])),
            ("runs_per_hour".into(), Json::Num((total_runs as f64 / wall.max(0.001) * 3600.0).round())),
            ("seeds".into(), Json::str(format!("root {root}; per-run seeds = splitmix64(root ^ fnv1a64(engine) ^ i*phi) for i in 0..{} (sim-gc) and 0..{} (sim-heap)", gb.scenarios, hb.runs))),
            ("simulated_time".into(), Json::str(format!("none - the system reads no clock; progress is counted in evaluator steps ({}) and heap operations ({})", gb.steps, hb.ops))),
            ("fault_kinds_fired".into(), util::counts_to_json(&fault_kinds)),
            ("probes".into(), util::counts_to_json(&probes)),
            ("components".into(), Json::obj(vec![
                ("real", Json::Arr(["lexer", "parser", "analyzer", "evaluator", "stdlib", "collector (gc/mod.rs)", "GcTrace impls (program/data.rs)"].iter().map(|s| Json::str(*s)).collect())),
                ("stub", Json::Arr(["Callbacks implementor with in-memory file table (replaces rsjsonnet-front)", "collection trigger decision (hook H1)", "SimNode payload type in sim-heap (hook H2)"].iter().map(|s| Json::str(*s)).collect())),
            ])),
            ("determinism_sample".into(), Json::obj(vec![("reexecuted", Json::Num((gb.determinism_reexecuted + hb.determinism_reexecuted) as f64)), ("mismatches", Json::Num(0.0))])),
            ("regression_scenarios_replayed".into(), Json::Num(reg_n as f64)),
            ("known_findings_hit".into(), Json::Arr(known_hit.iter().map(Json::str).collect())),
            ("corpus_files_used".into(), Json::Num(corp.entries.len() as f64)),
            ("corpus_files_skipped".into(), Json::Num(corp.skipped as f64)),
            ("corpus_scenarios_run".into(), Json::Num(gb.corpus_used as f64)),
        ],
        assumptions: vec![
            "hash-iteration order (foldhash RandomState keyed by pointer identity) affects only allocation/marking order, never a result; checked by the determinism sample".into(),
            "the H3 audit traces with the same GcTrace implementations the collector uses".into(),
            "seeded search samples schedules and heap shapes; a clean batch is evidence, not proof".into(),
        ],
    };
    ev.write();
    println!("C03 done: {} runs, {} new violations, {:.1}s", total_runs, new_count, wall);
    std::process::exit(code);
}

fn replay(path: &str) -> i32 {
    let text = match std::fs::read_to_string(path) {
        Ok(t) => t,
        Err(e) => {
            eprintln!("HARNESS ERROR: cannot read {path}: {e}");
            return 2;
        }
    };
    let j = match json::parse(&text) {
        Ok(j) => j,
        Err(e) => {
            eprintln!("HARNESS ERROR: cannot parse {path}: {e}");
            return 2;
        }
    };
    let engine = j.get("engine").and_then(|e| e.as_str()).unwrap_or("");
    let Some(scenario) = j.get("scenario") else {
        eprintln!("HARNESS ERROR: no scenario in {path}");
        return 2;
    };
    let r = match engine {
        "sim-heap" => heap::replay(scenario),
        "sim-gc" => gcsim::replay(scenario),
        other => Err(format!("unknown engine {other:?}")),
    };
    match r {
        Err(e) => {
            eprintln!("HARNESS ERROR: {e}");
            2
        }
        Ok(None) => {
            println!("replay: scenario passes (no violation)");
            0
        }
        Ok(Some(v)) => {
            println!("VIOLATION property=C03 replay={path}");
            println!("  invariant={} class={} detail={}", v.invariant, v.class, v.detail);
            println!("  event_log_sha256={}", v.event_log_sha256);
            1
        }
    }
}

//! C12 / C13 — `sim-cli`: the real rsjsonnet binary under simulated OS faults.

use std::collections::BTreeMap;
use std::time::Instant;

use verif_sim::json::{self, Json};
use verif_sim::util::{self, Evidence, Violation};
use verif_sim::{c12, c13, cliworld, rng};

fn main() {
    util::install_quiet_panic_hook();
    let args: Vec<String> = std::env::args().skip(1).collect();
    let prop = args.first().cloned().unwrap_or_default();
    if !std::path::Path::new(&cliworld::cli_bin()).exists() || !std::path::Path::new(cliworld::SHIM_SO).exists() {
        eprintln!("HARNESS ERROR: {} or {} missing (run ./check setup)", cliworld::CLI_BIN, cliworld::SHIM_SO);
        std::process::exit(2);
    }
    if let Some(p) = args.iter().position(|a| a == "--replay") {
        let Some(path) = args.get(p + 1) else {
            eprintln!("usage: cli <C12|C13> --replay <file>");
            std::process::exit(2);
        };
        let code = replay(&prop, path);
        cliworld::cleanup_scratch();
        std::process::exit(code);
    }
    let tier = util::tier_from_args(&args);
    let root = rng::root_seed();
    // process creation does not scale in this VM (~100 exec/s whatever the parallelism): more workers only burn CPU
    let workers = util::num_workers().min(6);
    let scale: u64 = std::env::var("VERIF_SCALE").ok().and_then(|s| s.parse().ok()).unwrap_or(1);
    println!("{prop} tier={tier} seed={root} workers={workers}");
    let code = match prop.as_str() {
        "calibrate" => calibrate(root, args.get(1).and_then(|s| s.parse().ok()).unwrap_or(24)),
        "C12" => run_c12(&tier, root, workers, scale),
        "C13" => run_c13(&tier, root, workers, scale),
        _ => {
            eprintln!("usage: cli <C12|C13> quick|thorough|--replay <file>");
            2
        }
    };
    cliworld::cleanup_scratch();
    std::process::exit(code);
}

fn run_c12(tier: &str, root: u64, workers: usize, scale: u64) -> i32 {
    let (worlds, max_plans) = if tier == "thorough" { (6_000 * scale, 60usize) } else { (320 * scale, 28usize) };
    let worlds = util::runs_override(worlds);
    let start = Instant::now();
    let results = util::run_pool(worlds, workers, |i| {
        let mut st = c12::Stats::default();
        let r = std::panic::catch_unwind(std::panic::AssertUnwindSafe(|| c12::run_one(root, i, max_plans, &mut st)));
        match r {
            Ok(v) => {
                // only the first failing world per violation class pays for minimisation
                let v = v.map(|v| if util::claim_minimisation(&v.class) { verif_sim::climin::minimise_c12(&v) } else { v });
                (st, v)
            }
            Err(p) => {
                eprintln!("HARNESS ERROR: {}", util::panic_message(&p));
                std::process::exit(2);
            }
        }
    });
    let wall = start.elapsed().as_secs_f64();
    util::dump_hashes("sim-cli-c12", &results.iter().map(|(st, _)| st.base_identity).collect::<Vec<_>>());
    let mut total = c12::Stats::default();
    let mut violations: Vec<Violation> = Vec::new();
    let mut tuples = std::collections::HashSet::new();
    for (st, v) in &results {
        total.worlds += st.worlds;
        total.spawns += st.spawns;
        total.fault_runs += st.fault_runs;
        total.io_calls += st.io_calls;
        util::merge_counts(&mut total.fault_kinds_fired, &st.fault_kinds_fired);
        util::merge_counts(&mut total.probes, &st.probes);
        tuples.extend(st.tuples.iter().copied());
        if let Some(v) = v {
            violations.push(v.clone());
        }
    }
    println!("sim-cli C12: {} worlds, {} spawns of the real binary ({} fault runs), {} violations, {:.1}s", total.worlds, total.spawns, total.fault_runs, violations.len(), wall);
    let (code, new_count, known_hit) = util::report("C12", tier, root, &violations);
    let (reg_n, reg_failed) = util::run_regressions("C12", c12::replay);
    let code = if reg_failed > 0 { 1 } else { code };
    let new_count = new_count + reg_failed;
    // samples: first three worlds re-generated
    let mut samples = Vec::new();
    for i in 0..3u64.min(worlds) {
        let w = c12::gen_world(rng::run_seed(root, "sim-cli-c12", i));
        samples.push(Json::obj(vec![("run", Json::Num(i as f64)), ("scenario", c12::world_to_json(&w, &[], &cliworld::StdoutKind::File)), ("program", Json::str(&w.program))]));
    }
    let mut mode_probes: BTreeMap<String, u64> = BTreeMap::new();
    let mut other_probes: BTreeMap<String, u64> = BTreeMap::new();
    for (k, v) in &total.probes {
        if k.starts_with("mode:") {
            mode_probes.insert(k.clone(), *v);
        } else {
            other_probes.insert(k.clone(), *v);
        }
    }
    Evidence {
        property: "C12".into(),
        tier: tier.into(),
        seed: root,
        level: "fault_enumeration".into(),
        wall_s: wall,
        violations: new_count,
        coverage: vec![
            ("evaluations".into(), Json::Num(total.spawns as f64)),
            ("distinct_nontrivial".into(), Json::Num(tuples.len() as f64)),
            ("rule".into(), Json::str("seeded worlds (value V printed as a Jsonnet program with ext-var / TLA / import indirection, mode flags -S -y -m -o --no-trailing-newline -s -t, input as file / -e / stdin, matching and deliberately mismatching types); each world is run fault-free and validated against the driver's own model (M1-M9), then once per (I/O instance of the recorded trace x applicable fault kind) single-rule plan (all of them up to the per-world cap, seeded sample above), plus seeded two-fault plans and real /dev/full and closed-pipe stdout; distinct = distinct (mode-flag set + input kind, fault kind, position class) tuples whose fault actually fired.")),
            ("samples".into(), Json::Arr(samples)),
            ("worlds".into(), Json::Num(total.worlds as f64)),
            ("fault_runs".into(), Json::Num(total.fault_runs as f64)),
            ("runs_per_hour".into(), Json::Num((total.spawns as f64 / wall.max(0.001) * 3600.0).round())),
            ("seeds".into(), Json::str(format!("root {root}; per-world seeds = splitmix64(root ^ fnv1a64(\"sim-cli-c12\") ^ i*phi) for i in 0..{worlds}"))),
            ("simulated_time".into(), Json::str(format!("none - the tool reads no clock; progress is counted in intercepted I/O calls ({})", total.io_calls))),
            ("fault_kinds_fired".into(), util::counts_to_json(&total.fault_kinds_fired)),
            ("mode_flag_combinations_seen".into(), util::counts_to_json(&mode_probes)),
            ("probes".into(), util::counts_to_json(&other_probes)),
            ("components".into(), Json::obj(vec![
                ("real", Json::Arr(["the unmodified rsjsonnet binary built from /repo (hooks off)", "rsjsonnet-front Session", "Rust std I/O", "kernel tmpfs", "/dev/full and closed pipes"].iter().map(|s| Json::str(*s)).collect())),
                ("stub", Json::Arr(["results of libc open/read/write/realpath calls on watched paths and fd 0/1 when a plan rule fires (LD_PRELOAD shim)"].iter().map(|s| Json::str(*s)).collect())),
            ])),
            ("regression_scenarios_replayed".into(), Json::Num(reg_n as f64)),
            ("known_findings_hit".into(), Json::Arr(known_hit.iter().map(Json::str).collect())),
        ],
        assumptions: vec![
            "stderr (fd 2) is never faulted: the property's fault list does not include it".into(),
            "close/fsync errors are not injected: the tool never observes them".into(),
            "the shim intercepts every libc entry point the binary uses for watched I/O (open/open64/openat, read, write, writev, realpath, stat family); the sentinel line proves it is loaded".into(),
        ],
    }
    .write();
    println!("C12 done: {} spawns, {} new violations, {:.1}s", total.spawns, new_count, wall);
    code
}

fn run_c13(tier: &str, root: u64, workers: usize, scale: u64) -> i32 {
    c13::run_batch(tier, root, workers, scale)
}

fn replay(prop: &str, path: &str) -> i32 {
    let j = match std::fs::read_to_string(path).map_err(|e| e.to_string()).and_then(|t| json::parse(&t)) {
        Ok(j) => j,
        Err(e) => {
            eprintln!("HARNESS ERROR: cannot read/parse {path}: {e}");
            return 2;
        }
    };
    let Some(scenario) = j.get("scenario") else {
        eprintln!("HARNESS ERROR: no scenario in {path}");
        return 2;
    };
    let r = match prop {
        "C12" => c12::replay(scenario),
        "C13" => c13::replay(scenario),
        _ => Err("unknown property".into()),
    };
    match r {
        Err(e) => {
            eprintln!("HARNESS ERROR: {e}");
            2
        }
        Ok(None) => {
            println!("replay: scenario passes (no violation)");
            0
        }
        Ok(Some(v)) => {
            println!("VIOLATION property={prop} replay={path}");
            println!("  invariant={} class={} detail={}", v.invariant, v.class, v.detail);
            println!("  run_identity_sha256={}", v.event_log_sha256);
            1
        }
    }
}

/// Shim calibration: a sample of C12 and C13 worlds is run under `strace -f` as well; every open-, read-,
/// write- and stat-class system call strace sees on a watched path / fd 0 / fd 1 must appear in the shim log.
/// A gap means injection could be silently inert: harness error (exit 2), never a violation.
fn calibrate(root: u64, n: u64) -> i32 {
    use std::collections::BTreeMap;
    let mut checked = 0u64;
    let mut calls = 0u64;
    for i in 0..n {
        let worlds = vec![c12::gen_world(rng::run_seed(root, "sim-cli-c12", i)).world, c13::gen_world(rng::run_seed(root, "sim-cli-c13", i)).world];
        for w in worlds {
            let trace_path = cliworld::scratch_root().with_file_name("strace.out");
            let _ = std::fs::remove_file(&trace_path);
            let out = cliworld::run_world_opt(&w, &[], Some(&trace_path));
            let text = std::fs::read_to_string(&trace_path).unwrap_or_default();
            let rootp = out.root.clone();
            // strace side: count calls per (class, target)
            let mut fds: BTreeMap<(String, i64), String> = BTreeMap::new();
            let mut seen: BTreeMap<(String, String), i64> = BTreeMap::new();
            for line in text.lines() {
                let Some((pid, rest)) = line.split_once(' ') else { continue };
                let rest = rest.trim_start();
                let Some(p) = rest.find('(') else { continue };
                let name = &rest[..p];
                // strace pads between ")" and "=": split at the last " = ", then cut the closing parenthesis
                let Some((before, ret)) = rest[p + 1..].rsplit_once(" = ") else { continue };
                let Some(close) = before.rfind(')') else { continue };
                let args = &before[..close];
                let retv: i64 = ret.split_whitespace().next().and_then(|r| r.parse().ok()).unwrap_or(-1);
                let path_arg = |a: &str| -> Option<String> {
                    let q1 = a.find('"')?;
                    let q2 = a[q1 + 1..].find('"')? + q1 + 1;
                    Some(a[q1 + 1..q2].to_string())
                };
                let watched = |p: &str| -> Option<String> {
                    let abs = if p.starts_with('/') { p.to_string() } else { format!("{rootp}/{p}") };
                    abs.strip_prefix(&format!("{rootp}/")).map(norm_dots)
                };
                match name {
                    "open" | "openat" | "creat" => {
                        // strace -s 0 prints paths in full (only data buffers are cut)
                        if let Some(t) = path_arg(args).and_then(|p| watched(&p)) {
                            *seen.entry(("open".into(), t.clone())).or_insert(0) += 1;
                            if retv >= 0 {
                                fds.insert((pid.to_string(), retv), t);
                            }
                        }
                    }
                    "read" | "readv" | "pread64" | "write" | "writev" | "pwrite64" => {
                        let fd: i64 = args.split(',').next().and_then(|f| f.trim().parse().ok()).unwrap_or(-1);
                        let class = if name.starts_with('r') || name == "pread64" { "read" } else { "write" };
                        let t = if fd == 0 && class == "read" { Some("fd:0".to_string()) } else if fd == 1 && class == "write" { Some("fd:1".to_string()) } else { fds.get(&(pid.to_string(), fd)).cloned() };
                        if let Some(t) = t {
                            *seen.entry((class.into(), t)).or_insert(0) += 1;
                        }
                    }
                    "stat" | "lstat" | "newfstatat" | "statx" => {
                        if let Some(t) = path_arg(args).filter(|p| !p.is_empty()).and_then(|p| watched(&p)) {
                            *seen.entry(("stat".into(), t)).or_insert(0) += 1;
                        }
                    }
                    _ => {}
                }
            }
            // shim side
            let mut logged: BTreeMap<(String, String), i64> = BTreeMap::new();
            for l in &out.log {
                let t = norm_dots(l.target.strip_prefix("path:").unwrap_or(&l.target));
                *logged.entry((l.op.clone(), t)).or_insert(0) += 1;
                if l.op == "realpath" {
                    // glibc's realpath stats/readlinks internally without passing through the PLT
                    *logged.entry(("stat".into(), l.target.strip_prefix("path:").unwrap_or(&l.target).to_string())).or_insert(0) += 64;
                }
            }
            for ((class, target), n_strace) in &seen {
                calls += *n_strace as u64;
                let n_shim = logged.get(&(class.clone(), target.clone())).copied().unwrap_or(0);
                // realpath walks the path components with lstat/readlink inside libc: tolerated for stat class on any prefix
                let covered_by_realpath = class == "stat" && out.log.iter().any(|l| l.op == "realpath");
                if n_shim < *n_strace && !covered_by_realpath {
                    eprintln!("HARNESS ERROR: shim calibration: strace saw {n_strace} {class} call(s) on {target:?}, the shim logged {n_shim} (world {i}, argv {:?})", w.argv);
                    return 2;
                }
            }
            if std::env::var("VERIF_DEBUG").is_ok() {
                eprintln!("world {i}: strace {:?}\n          shim {:?}", seen, logged);
            }
            checked += 1;
        }
    }
    println!("shim calibration: {checked} worlds, {calls} system calls on watched paths / fd 0 / fd 1 seen by strace, all present in the shim log");
    0
}

/// drops "." and empty components (".." is kept: collapsing it across symlinks would rename the file)
fn norm_dots(p: &str) -> String {
    if p.starts_with("fd:") {
        return p.to_string();
    }
    p.split('/').filter(|c| !c.is_empty() && *c != ".").collect::<Vec<_>>().join("/")
}

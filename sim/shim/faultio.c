/* faultio.c — LD_PRELOAD libc shim: plan-driven fault injection + I/O event log.
 *
 * Behaviour is a pure function of (plan, call sequence): no randomness, no clock.
 *   VERIF_SHIM_ROOT  absolute directory; paths under it are "watched"
 *   VERIF_SHIM_PLAN  file with one rule per line:  <op> <target> <when> <action>
 *        op      := open | read | write | stat | realpath | close
 *        target  := fd:0 | fd:1 | path:<path relative to root>
 *        when    := nth:<k> | from:<k> | always         (k counts matching calls from 1)
 *        action  := errno:<NAME> | short:<n> | eintr | zero   (zero: a write that accepts nothing and reports no error)
 *   VERIF_SHIM_LOG   file; every watched call is appended:
 *        <seq> <op> <target> given=<path|-> n=<count|-> -> <ret>|E<NAME> [inj]
 * The first log line is the sentinel "#shim v1 root=<root>".
 */
#define _GNU_SOURCE
#include <dlfcn.h>
#include <errno.h>
#include <fcntl.h>
#include <limits.h>
#include <stdarg.h>
#include <stdio.h>
#include <stdlib.h>
#include <string.h>
#include <sys/stat.h>
#include <sys/syscall.h>
#include <sys/types.h>
#include <sys/uio.h>
#include <unistd.h>

#define MAX_RULES 64
#define MAX_FDS 1024

enum { OP_OPEN, OP_READ, OP_WRITE, OP_STAT, OP_REALPATH, OP_CLOSE, OP_N };
static const char *op_names[OP_N] = {"open", "read", "write", "stat", "realpath", "close"};
enum { W_NTH, W_FROM, W_ALWAYS };
enum { A_ERRNO, A_SHORT, A_EINTR, A_ZERO };

struct rule {
    int op;
    char target[PATH_MAX]; /* "fd:0", "fd:1" or relative path */
    int when;
    long k;
    int act;
    long arg; /* errno value or short count */
    long hits;
};

static struct rule rules[MAX_RULES];
static int n_rules = 0;
static char root[PATH_MAX];
static size_t root_len = 0;
static int log_fd = -1;
static long seq = 0;
static int inited = 0;
static char *fd_paths[MAX_FDS]; /* relative path of watched fds */

static const struct { const char *name; int val; } errnos[] = {
    {"ENOENT", ENOENT}, {"EACCES", EACCES}, {"EISDIR", EISDIR}, {"EIO", EIO}, {"EMFILE", EMFILE},
    {"ELOOP", ELOOP}, {"EROFS", EROFS}, {"ENOSPC", ENOSPC}, {"EPIPE", EPIPE}, {"EAGAIN", EAGAIN},
    {"EINTR", EINTR}, {"ENOTDIR", ENOTDIR}, {"EPERM", EPERM}, {"ENOMEM", ENOMEM}, {"EBADF", EBADF},
    {"ENAMETOOLONG", ENAMETOOLONG}, {"EDQUOT", EDQUOT}, {"EFBIG", EFBIG}, {"EEXIST", EEXIST},
    {"EINVAL", EINVAL}, {"ENOTEMPTY", ENOTEMPTY}, {"EXDEV", EXDEV}, {NULL, 0}};

static const char *errno_name(int e) {
    static char buf[16];
    for (int i = 0; errnos[i].name; i++)
        if (errnos[i].val == e) return errnos[i].name;
    snprintf(buf, sizeof buf, "%d", e);
    return buf;
}

static int errno_val(const char *n) {
    for (int i = 0; errnos[i].name; i++)
        if (strcmp(errnos[i].name, n) == 0) return errnos[i].val;
    return EIO;
}

static void raw_log(const char *s) {
    if (log_fd >= 0) {
        size_t len = strlen(s);
        while (len > 0) {
            long r = syscall(SYS_write, log_fd, s, len);
            if (r <= 0) break;
            s += r;
            len -= (size_t)r;
        }
    }
}

static void parse_plan(const char *path) {
    int fd = (int)syscall(SYS_openat, AT_FDCWD, path, O_RDONLY | O_CLOEXEC, 0);
    if (fd < 0) return;
    static char buf[65536];
    long n = 0, r;
    while ((r = syscall(SYS_read, fd, buf + n, sizeof buf - 1 - n)) > 0) n += r;
    syscall(SYS_close, fd);
    buf[n] = 0;
    char *save = NULL;
    for (char *line = strtok_r(buf, "\n", &save); line && n_rules < MAX_RULES; line = strtok_r(NULL, "\n", &save)) {
        char op[32], target[PATH_MAX], when[64], act[64];
        if (line[0] == '#' || sscanf(line, "%31s %4095s %63s %63s", op, target, when, act) != 4) continue;
        struct rule *ru = &rules[n_rules];
        memset(ru, 0, sizeof *ru);
        ru->op = -1;
        for (int i = 0; i < OP_N; i++)
            if (strcmp(op, op_names[i]) == 0) ru->op = i;
        if (ru->op < 0) continue;
        if (strncmp(target, "path:", 5) == 0)
            snprintf(ru->target, sizeof ru->target, "%s", target + 5);
        else
            snprintf(ru->target, sizeof ru->target, "%s", target);
        if (strncmp(when, "nth:", 4) == 0) { ru->when = W_NTH; ru->k = atol(when + 4); }
        else if (strncmp(when, "from:", 5) == 0) { ru->when = W_FROM; ru->k = atol(when + 5); }
        else ru->when = W_ALWAYS;
        if (strncmp(act, "errno:", 6) == 0) { ru->act = A_ERRNO; ru->arg = errno_val(act + 6); }
        else if (strncmp(act, "short:", 6) == 0) { ru->act = A_SHORT; ru->arg = atol(act + 6); }
        else if (strcmp(act, "zero") == 0) { ru->act = A_ZERO; ru->arg = 0; }
        else ru->act = A_EINTR;
        n_rules++;
    }
}

static void shim_init(void) {
    if (inited) return;
    inited = 1;
    const char *r = getenv("VERIF_SHIM_ROOT");
    const char *lg = getenv("VERIF_SHIM_LOG");
    const char *pl = getenv("VERIF_SHIM_PLAN");
    if (!r || !lg) return;
    snprintf(root, sizeof root, "%s", r);
    root_len = strlen(root);
    while (root_len > 1 && root[root_len - 1] == '/') root[--root_len] = 0;
    log_fd = (int)syscall(SYS_openat, AT_FDCWD, lg, O_WRONLY | O_CREAT | O_APPEND | O_CLOEXEC, 0644);
    if (log_fd >= 0 && log_fd < 100) {
        /* move out of the way of the fds the program itself will get */
        int nfd = (int)syscall(SYS_fcntl, log_fd, F_DUPFD_CLOEXEC, 900);
        if (nfd >= 0) { syscall(SYS_close, log_fd); log_fd = nfd; }
    }
    if (pl && pl[0]) parse_plan(pl);
    char line[PATH_MAX + 64];
    snprintf(line, sizeof line, "#shim v1 root=%s rules=%d\n", root, n_rules);
    raw_log(line);
}

__attribute__((constructor)) static void shim_ctor(void) { shim_init(); }

/* absolute + lexically normalised; returns relative part under root or NULL */
static const char *watched_rel(int dirfd, const char *path, char *out) {
    if (!path || log_fd < 0) return NULL;
    char abs[PATH_MAX * 2];
    if (path[0] == '/') {
        snprintf(abs, sizeof abs, "%s", path);
    } else {
        char cwd[PATH_MAX];
        if (dirfd != AT_FDCWD) return NULL;
        if (syscall(SYS_getcwd, cwd, sizeof cwd) < 0) return NULL;
        snprintf(abs, sizeof abs, "%s/%s", cwd, path);
    }
    /* normalise */
    char *parts[512];
    int np = 0;
    char *save = NULL;
    static __thread char tmp[PATH_MAX * 2];
    snprintf(tmp, sizeof tmp, "%s", abs);
    for (char *c = strtok_r(tmp, "/", &save); c; c = strtok_r(NULL, "/", &save)) {
        if (strcmp(c, ".") == 0) continue;
        /* ".." is NOT collapsed: across a symlinked directory that would name a different file */
        if (np < 512) parts[np++] = c;
    }
    char norm[PATH_MAX * 2];
    size_t o = 0;
    norm[0] = 0;
    for (int i = 0; i < np; i++) o += (size_t)snprintf(norm + o, sizeof norm - o, "/%s", parts[i]);
    if (np == 0) snprintf(norm, sizeof norm, "/");
    if (strncmp(norm, root, root_len) != 0) return NULL;
    if (norm[root_len] == 0) { out[0] = '.'; out[1] = 0; return out; }
    if (norm[root_len] != '/') return NULL;
    snprintf(out, PATH_MAX, "%s", norm + root_len + 1);
    return out;
}

static const char *fd_target(int fd, char *buf) {
    if (fd == 0) return "fd:0";
    if (fd == 1) return "fd:1";
    if (fd >= 0 && fd < MAX_FDS && fd_paths[fd]) { snprintf(buf, PATH_MAX + 8, "%s", fd_paths[fd]); return buf; }
    return NULL;
}

/* returns the rule that fires for this call, or NULL */
static struct rule *match(int op, const char *target) {
    struct rule *fired = NULL;
    for (int i = 0; i < n_rules; i++) {
        struct rule *ru = &rules[i];
        if (ru->op != op || strcmp(ru->target, target) != 0) continue;
        ru->hits++;
        int f = (ru->when == W_ALWAYS) || (ru->when == W_NTH && ru->hits == ru->k) || (ru->when == W_FROM && ru->hits >= ru->k);
        if (f && !fired) fired = ru;
    }
    return fired;
}

static void log_call(int op, const char *target, const char *given, long n, long ret, int err, int inj) {
    char line[PATH_MAX * 2 + 128];
    char res[48], cnt[32];
    if (ret < 0) snprintf(res, sizeof res, "E%s", errno_name(err)); else snprintf(res, sizeof res, "%ld", ret);
    if (n >= 0) snprintf(cnt, sizeof cnt, "%ld", n); else snprintf(cnt, sizeof cnt, "-");
    const char *pfx = (strncmp(target, "fd:", 3) == 0) ? "" : "path:";
    snprintf(line, sizeof line, "%ld %s %s%s given=%s n=%s -> %s%s\n", ++seq, op_names[op], pfx, target, given ? given : "-", cnt, res, inj ? " inj" : "");
    raw_log(line);
}

#define REAL(name) static __typeof__(name) *real_##name = NULL; if (!real_##name) real_##name = dlsym(RTLD_NEXT, #name)

/* ---- open family ---- */
static int do_open(int dirfd, const char *path, int flags, mode_t mode, int is64) {
    shim_init();
    char rel[PATH_MAX];
    const char *t = watched_rel(dirfd, path, rel);
    (void)is64;
    if (!t) return (int)syscall(SYS_openat, dirfd, path, flags, mode);
    struct rule *ru = match(OP_OPEN, t);
    if (ru && ru->act != A_SHORT && ru->act != A_ZERO) {
        int e = ru->act == A_EINTR ? EINTR : (int)ru->arg;
        log_call(OP_OPEN, t, path, flags, -1, e, 1);
        errno = e;
        return -1;
    }
    int fd = (int)syscall(SYS_openat, dirfd, path, flags, mode);
    int e = errno;
    log_call(OP_OPEN, t, path, flags, fd, e, 0);
    if (fd >= 0 && fd < MAX_FDS) {
        free(fd_paths[fd]);
        fd_paths[fd] = strdup(t);
    }
    errno = e;
    return fd;
}

int open(const char *path, int flags, ...) {
    mode_t mode = 0;
    if (flags & (O_CREAT | O_TMPFILE)) { va_list ap; va_start(ap, flags); mode = va_arg(ap, mode_t); va_end(ap); }
    return do_open(AT_FDCWD, path, flags, mode, 0);
}
int open64(const char *path, int flags, ...) {
    mode_t mode = 0;
    if (flags & (O_CREAT | O_TMPFILE)) { va_list ap; va_start(ap, flags); mode = va_arg(ap, mode_t); va_end(ap); }
    return do_open(AT_FDCWD, path, flags | O_LARGEFILE, mode, 1);
}
int openat(int dirfd, const char *path, int flags, ...) {
    mode_t mode = 0;
    if (flags & (O_CREAT | O_TMPFILE)) { va_list ap; va_start(ap, flags); mode = va_arg(ap, mode_t); va_end(ap); }
    return do_open(dirfd, path, flags, mode, 0);
}
int openat64(int dirfd, const char *path, int flags, ...) {
    mode_t mode = 0;
    if (flags & (O_CREAT | O_TMPFILE)) { va_list ap; va_start(ap, flags); mode = va_arg(ap, mode_t); va_end(ap); }
    return do_open(dirfd, path, flags | O_LARGEFILE, mode, 1);
}
int creat(const char *path, mode_t mode) { return do_open(AT_FDCWD, path, O_CREAT | O_WRONLY | O_TRUNC, mode, 0); }
int creat64(const char *path, mode_t mode) { return do_open(AT_FDCWD, path, O_CREAT | O_WRONLY | O_TRUNC | O_LARGEFILE, mode, 1); }

/* ---- read / write ---- */
ssize_t read(int fd, void *buf, size_t count) {
    shim_init();
    char tb[PATH_MAX + 8];
    const char *t = fd_target(fd, tb);
    if (!t || log_fd < 0) return syscall(SYS_read, fd, buf, count);
    struct rule *ru = match(OP_READ, t);
    size_t c = count;
    int inj = 0;
    if (ru) {
        inj = 1;
        if (ru->act == A_ERRNO) { log_call(OP_READ, t, NULL, (long)count, -1, (int)ru->arg, 1); errno = (int)ru->arg; return -1; }
        if (ru->act == A_EINTR) { log_call(OP_READ, t, NULL, (long)count, -1, EINTR, 1); errno = EINTR; return -1; }
        if (ru->arg >= 1 && (size_t)ru->arg < c) c = (size_t)ru->arg;
    }
    ssize_t r = syscall(SYS_read, fd, buf, c);
    int e = errno;
    log_call(OP_READ, t, NULL, (long)count, r, e, inj);
    errno = e;
    return r;
}

ssize_t write(int fd, const void *buf, size_t count) {
    shim_init();
    char tb[PATH_MAX + 8];
    const char *t = fd_target(fd, tb);
    if (!t || log_fd < 0) return syscall(SYS_write, fd, buf, count);
    struct rule *ru = match(OP_WRITE, t);
    size_t c = count;
    int inj = 0;
    if (ru) {
        inj = 1;
        if (ru->act == A_ERRNO) { log_call(OP_WRITE, t, NULL, (long)count, -1, (int)ru->arg, 1); errno = (int)ru->arg; return -1; }
        if (ru->act == A_EINTR) { log_call(OP_WRITE, t, NULL, (long)count, -1, EINTR, 1); errno = EINTR; return -1; }
        if (ru->act == A_ZERO) { log_call(OP_WRITE, t, NULL, (long)count, 0, 0, 1); return 0; } /* nothing accepted, no error */
        if (ru->arg >= 1 && (size_t)ru->arg < c) c = (size_t)ru->arg;
    }
    ssize_t r = syscall(SYS_write, fd, buf, c);
    int e = errno;
    log_call(OP_WRITE, t, NULL, (long)count, r, e, inj);
    errno = e;
    return r;
}

ssize_t writev(int fd, const struct iovec *iov, int iovcnt) {
    shim_init();
    char tb[PATH_MAX + 8];
    const char *t = fd_target(fd, tb);
    if (!t || log_fd < 0) return syscall(SYS_writev, fd, iov, iovcnt);
    /* present a vectored write as one write of the first non-empty buffer (a legal short write) */
    for (int i = 0; i < iovcnt; i++)
        if (iov[i].iov_len > 0) return write(fd, iov[i].iov_base, iov[i].iov_len);
    return 0;
}

ssize_t readv(int fd, const struct iovec *iov, int iovcnt) {
    shim_init();
    char tb[PATH_MAX + 8];
    const char *t = fd_target(fd, tb);
    if (!t || log_fd < 0) return syscall(SYS_readv, fd, iov, iovcnt);
    for (int i = 0; i < iovcnt; i++)
        if (iov[i].iov_len > 0) return read(fd, iov[i].iov_base, iov[i].iov_len);
    return 0;
}

ssize_t pread64(int fd, void *buf, size_t count, off_t off) {
    shim_init();
    char tb[PATH_MAX + 8];
    const char *t = fd_target(fd, tb);
    if (t && log_fd >= 0) log_call(OP_READ, t, "pread", (long)count, 0, 0, 0);
    return syscall(SYS_pread64, fd, buf, count, off);
}

ssize_t pwrite64(int fd, const void *buf, size_t count, off_t off) {
    shim_init();
    char tb[PATH_MAX + 8];
    const char *t = fd_target(fd, tb);
    if (t && log_fd >= 0) log_call(OP_WRITE, t, "pwrite", (long)count, 0, 0, 0);
    return syscall(SYS_pwrite64, fd, buf, count, off);
}

int close(int fd) {
    shim_init();
    if (fd == log_fd) { errno = EBADF; return -1; }
    char tb[PATH_MAX + 8];
    const char *t = (fd > 1) ? fd_target(fd, tb) : NULL;
    int r = (int)syscall(SYS_close, fd);
    int e = errno;
    if (t) {
        log_call(OP_CLOSE, t, NULL, -1, r, e, 0);
        free(fd_paths[fd]);
        fd_paths[fd] = NULL;
    }
    errno = e;
    return r;
}

/* ---- stat family ---- */
static int stat_fault(int dirfd, const char *path, const char *fn) {
    shim_init();
    char rel[PATH_MAX];
    const char *t = (path && path[0]) ? watched_rel(dirfd, path, rel) : NULL;
    if (!t) return 0;
    struct rule *ru = match(OP_STAT, t);
    if (ru && ru->act != A_SHORT && ru->act != A_ZERO) {
        int e = ru->act == A_EINTR ? EINTR : (int)ru->arg;
        log_call(OP_STAT, t, path, -1, -1, e, 1);
        errno = e;
        return -1;
    }
    (void)fn;
    return 1; /* watched, not faulted: caller logs the result */
}

static void stat_log(int dirfd, const char *path, long r) {
    int e = errno;
    char rel[PATH_MAX];
    const char *t = watched_rel(dirfd, path, rel);
    if (t) log_call(OP_STAT, t, path, -1, r, e, 0);
    errno = e;
}

int statx(int dirfd, const char *path, int flags, unsigned int mask, struct statx *buf) {
    int w = stat_fault(dirfd, path, "statx");
    if (w < 0) return -1;
    int r = (int)syscall(SYS_statx, dirfd, path, flags, mask, buf);
    if (w > 0) stat_log(dirfd, path, r);
    return r;
}
int stat(const char *path, struct stat *buf) {
    int w = stat_fault(AT_FDCWD, path, "stat");
    if (w < 0) return -1;
    int r = (int)syscall(SYS_newfstatat, AT_FDCWD, path, buf, 0);
    if (w > 0) stat_log(AT_FDCWD, path, r);
    return r;
}
int stat64(const char *path, struct stat64 *buf) {
    int w = stat_fault(AT_FDCWD, path, "stat64");
    if (w < 0) return -1;
    int r = (int)syscall(SYS_newfstatat, AT_FDCWD, path, buf, 0);
    if (w > 0) stat_log(AT_FDCWD, path, r);
    return r;
}
int lstat(const char *path, struct stat *buf) {
    int w = stat_fault(AT_FDCWD, path, "lstat");
    if (w < 0) return -1;
    int r = (int)syscall(SYS_newfstatat, AT_FDCWD, path, buf, AT_SYMLINK_NOFOLLOW);
    if (w > 0) stat_log(AT_FDCWD, path, r);
    return r;
}
int lstat64(const char *path, struct stat64 *buf) {
    int w = stat_fault(AT_FDCWD, path, "lstat64");
    if (w < 0) return -1;
    int r = (int)syscall(SYS_newfstatat, AT_FDCWD, path, buf, AT_SYMLINK_NOFOLLOW);
    if (w > 0) stat_log(AT_FDCWD, path, r);
    return r;
}
int fstatat(int dirfd, const char *path, struct stat *buf, int flags) {
    int w = stat_fault(dirfd, path, "fstatat");
    if (w < 0) return -1;
    int r = (int)syscall(SYS_newfstatat, dirfd, path, buf, flags);
    if (w > 0) stat_log(dirfd, path, r);
    return r;
}
int fstatat64(int dirfd, const char *path, struct stat64 *buf, int flags) {
    int w = stat_fault(dirfd, path, "fstatat64");
    if (w < 0) return -1;
    int r = (int)syscall(SYS_newfstatat, dirfd, path, buf, flags);
    if (w > 0) stat_log(dirfd, path, r);
    return r;
}

/* ---- realpath ---- */
char *realpath(const char *path, char *resolved) {
    shim_init();
    REAL(realpath);
    char rel[PATH_MAX];
    const char *t = watched_rel(AT_FDCWD, path, rel);
    if (!t) return real_realpath(path, resolved);
    struct rule *ru = match(OP_REALPATH, t);
    if (ru && ru->act != A_SHORT && ru->act != A_ZERO) {
        int e = ru->act == A_EINTR ? EINTR : (int)ru->arg;
        log_call(OP_REALPATH, t, path, -1, -1, e, 1);
        errno = e;
        return NULL;
    }
    char *r = real_realpath(path, resolved);
    int e = errno;
    log_call(OP_REALPATH, t, path, -1, r ? 0 : -1, e, 0);
    errno = e;
    return r;
}
